package discovery

// Bounded stand-in (not a proof): initRegex builds the filter pattern through a
// []rune conversion the verifier does not model. Every server argument
// "/"+w+"/" with w over the alphabet below up to length 6 (8 in the thorough tier) must give the filter
// compiled from exactly w, and clear the list.

import (
	"context"
	"os"
	"regexp"
	"sync"
	"testing"

	"github.com/mimecast/dtail/internal/config"
	"github.com/mimecast/dtail/internal/io/dlog"
	"github.com/mimecast/dtail/internal/source"
)

func TestGovcBoundedInitRegex(t *testing.T) {
	os.Setenv("DTAIL_HOSTNAME_OVERRIDE", "replayhost")
	config.Setup(source.Client, &config.Args{ConfigFile: "none", Logger: "none", LogLevel: "error"}, nil)
	ctx, cancel := context.WithCancel(context.Background())
	defer cancel()
	var wg sync.WaitGroup
	wg.Add(1)
	dlog.Start(ctx, &wg, source.Client)

	alphabet := []string{"a", "/", ".", "é", "世", "\\"}
	var words []string
	var gen func(prefix string, n int)
	gen = func(prefix string, n int) {
		words = append(words, prefix)
		if n == 0 {
			return
		}
		for _, c := range alphabet {
			gen(prefix+c, n-1)
		}
	}
	maxLen := 6
	if os.Getenv("GOVC_TIER") == "thorough" {
		maxLen = 8
	}
	gen("", maxLen)
	checked := 0
	for _, w := range words {
		if _, err := regexp.Compile(w); err != nil {
			continue // initRegex ends the program for these (FatalPanic)
		}
		d := New("", "/"+w+"/", Shuffle)
		checked++
		if d.regex == nil || d.regex.String() != w || d.server != "" {
			got := "<nil>"
			if d.regex != nil {
				got = d.regex.String()
			}
			t.Fatalf("GOVC-BOUNDED-FAIL: server argument %q: filter %q, want %q; server field %q", "/"+w+"/", got, w, d.server)
		}
	}
	// an argument not of the form /…/ is no filter
	for _, w := range []string{"", "a", "/a", "a/", "a,b", "/"} {
		d := New("", w, Shuffle)
		if w == "/" {
			continue // "/" is both prefix and suffix: a filter with an empty pattern by the code's own rule
		}
		if d.regex != nil || d.server != w {
			t.Fatalf("GOVC-BOUNDED-FAIL: server argument %q treated as a filter", w)
		}
	}
	t.Logf("checked %d filter arguments", checked)
}
