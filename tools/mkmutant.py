#!/usr/bin/env python3
"""mkmutant.py <name> <PROP> <must-fail|must-pass> <expect,comma,separated|-> <note> <file> <<< 'OLD\n=====\nNEW'
Creates selftest/mutants/<name>.{patch,json} from one textual replacement in /repo's HEAD version of <file>
(several replacements: separate blocks with a line '#####'; a block may start with '@@ file' to switch file)."""
import sys, os, subprocess, tempfile, json, shutil
name, prop, kind, expect, note, path = sys.argv[1:7]
spec = sys.stdin.read()
wt = tempfile.mkdtemp(prefix="mkmut-"); os.rmdir(wt)
subprocess.check_call(["git","-C","/repo","worktree","add","-q","--detach",wt,"HEAD"],stdout=subprocess.DEVNULL,stderr=subprocess.DEVNULL)
try:
    for block in spec.split("\n#####\n"):
        f = path
        if block.startswith("@@ "):
            first, block = block.split("\n",1); f = first[3:].strip()
        old, new = block.split("\n=====\n")
        old = old.strip("\n"); new = new.strip("\n")
        p = os.path.join(wt, f); s = open(p).read()
        if s.count(old) != 1:
            print("old text found %d times in %s" % (s.count(old), f)); sys.exit(1)
        open(p,"w").write(s.replace(old,new))
    b = subprocess.run(["go","build","./..."],cwd=wt,capture_output=True,text=True,env=dict(os.environ,GOFLAGS="-mod=mod",GOPROXY="off",GOSUMDB="off",GOTOOLCHAIN="local"))
    if b.returncode != 0:
        print("does not compile:", b.stderr[:500]); sys.exit(1)
    diff = subprocess.run(["git","-C",wt,"diff"],capture_output=True,text=True).stdout
    d = "/verif/selftest/mutants"
    open(os.path.join(d,name+".patch"),"w").write(diff)
    json.dump({"property":prop,"patch":name+".patch","expect":[] if expect=="-" else expect.split(","),"kind":kind,"note":note,"replay":False},open(os.path.join(d,name+".json"),"w"),indent=1)
    print("wrote", name)
finally:
    subprocess.run(["git","-C","/repo","worktree","remove","--force",wt],stdout=subprocess.DEVNULL,stderr=subprocess.DEVNULL)
    shutil.rmtree(wt,ignore_errors=True)
