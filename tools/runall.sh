#!/bin/sh
# run every claimed check (quick tier) and print one line each
cd /verif
for p in $(python3 -c "import json;print(' '.join(c['property_id'] for c in json.load(open('MANIFEST.json'))['checks']))"); do
  ./bin/govc check --property $p 2>&1 | grep -c "^VIOLATION" | tr '\n' ' '
  ./bin/govc check --property $p 2>&1 | tail -1
done
