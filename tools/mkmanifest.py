#!/usr/bin/env python3
"""Regenerates /verif/MANIFEST.json from tools/manifest_entries.json (claimed checks) and the
not_applicable list kept in the same file."""
import json, subprocess
E = json.load(open('/verif/tools/manifest_entries.json'))
hooks = subprocess.check_output(['git','-C','/repo','log','--format=%h %s'],text=True).splitlines()
hook_commits = [l.split()[0] for l in hooks if l.split(' ',1)[1].startswith('verif hooks')]
m = {
 "version": 1,
 "setup_cmd": "cd /verif/govc && GOFLAGS=-mod=mod GOPROXY=off GOSUMDB=off GOTOOLCHAIN=local go build -o /verif/bin/govc .",
 "hooks": {
  "guard": "verif",
  "enable": "go build tag `verif`: /verif/govc loads /repo with -tags verif; the hook files are comment-only contract files (internal/**/zz_contracts_verif.go) that contain no declarations, so the compiled code is byte-identical with and without the tag",
  "baseline_off_cmd": "cd /repo && GOFLAGS=-mod=mod GOPROXY=off GOSUMDB=off go test -vet=off -count=1 ./...",
  "source_commits": hook_commits[::-1],
  "add_only": True
 },
 "engines": [{"name": "govc", "path": "/verif/govc", "serves_properties": sorted(E["checks"].keys()),
   "kind_free_text": "self-written verification-condition generator over go/ssa (symbolic execution with loop cut points and declared invariants, callee contracts at calls, visible-state type invariants, channel invariants, ghost state) discharging SMT-LIB obligations with z3 4.8.12, z3 5.1.0 and cvc5 1.0 raced per obligation; counterexamples replayed on the real code with go test -overlay"}],
 "checks": [], "not_applicable": E["not_applicable"], "notes": E.get("notes","")
}
for pid in sorted(E["checks"].keys()):
    c = E["checks"][pid]
    m["checks"].append({
      "property_id": pid,
      "quick_cmd": "/verif/bin/govc check --property %s --tier quick" % pid,
      "thorough_cmd": "/verif/bin/govc check --property %s --tier thorough" % pid,
      "evidence_file": "/verif/evidence/%s.json" % pid,
      "replay_cmd_template": "cat {path}",
      "engine": "govc",
      "level_claimed": {"category": c.get("category","proof"), "text": c["text"], "design_ref": "DESIGN.md §3 "+pid},
      "level_note": c["note"],
      "technique": c.get("technique","contract-based deductive verification: VC generation over go/ssa + SMT (z3/cvc5)")
    })
json.dump(m, open('/verif/MANIFEST.json','w'), indent=1)
print("manifest:", len(m["checks"]), "checks,", len(m["not_applicable"]), "not applicable")
