#!/usr/bin/env python3
"""seedstore.py <seedname> <PROP> <patch> <demo> <pkgdir> <runre> <agent-meta.json> : verify + store under /verif/seeded/<seedname>/"""
import subprocess, sys, os, shutil, json
name, prop, patch, demo, pkgdir, runre, ameta = sys.argv[1:8]
r=subprocess.run(["python3","/verif/tools/seedverify.py",prop,patch,demo,pkgdir,runre],capture_output=True,text=True)
txt=r.stdout
try:
    res=json.loads(txt[txt.index('{'):])
except Exception:
    print(txt, r.stderr); sys.exit(1)
d="/verif/seeded/"+name; os.makedirs(d,exist_ok=True)
shutil.copy(patch,d+"/patch.diff"); shutil.copy(demo,d+"/"+os.path.basename(demo))
am=json.load(open(ameta)) if os.path.exists(ameta) else {}
meta={"seed":name,"property":prop,"what_it_breaks":am.get("what_it_breaks"),"needs_to_manifest":am.get("needs_to_manifest"),"files_changed":am.get("files_changed"),
 "demo":{"file":os.path.basename(demo),"copy_into":pkgdir,"run":"go test -vet=off -count=1 -run '%s' ./%s"%(runre,pkgdir)},
 "confirmed_by_me":{k:res.get(k) for k in ["applies_to_current_head","applies_with_3way","builds","existing_tests_pass","demo_fails_with_change","demo_passes_without_change"]},
 "what_i_ran":"tools/seedverify.py: scratch worktree of /repo HEAD under /tmp, git apply patch, go build ./..., go test ./..., demo with and without the source change; then git -C /repo apply, govc check --property %s --tier quick, git -C /repo checkout -- ."%prop,
 "check_result":{"exit":res.get("check_exit"),"violations":res.get("check_violations"),"summary":res.get("check_summary")},
 "caught": res.get("check_exit")==1}
json.dump(meta,open(d+"/meta.json","w"),indent=1)
print(name, "confirmed=%s caught=%s"%(all(v in (True,None) for v in meta["confirmed_by_me"].values()), meta["caught"]), meta["check_result"]["violations"])
