#!/usr/bin/env python3
"""unverified_contracts.py: contracted functions whose body no property's check verifies.

A contract that callers rely on but that is checked against no body is an
assumption. Reads the evidence files of the last run (functions_under_contract,
verified_inside_callers) and the contract files under /repo; prints every
`//@ func` contract that is neither verified by some check nor marked
trusted / skip / inline (those are listed as assumptions in the evidence).
Exit 1 if there is one.
"""
import json, glob, re, os, sys
verified = set()
for f in glob.glob('/verif/evidence/*.json'):
    cov = json.load(open(f))['coverage']
    verified.update(cov.get('functions_under_contract', []))
    verified.update(cov.get('verified_inside_callers') or [])
contracted = {}
for p in glob.glob('/repo/internal/**/zz_contracts_verif.go', recursive=True):
    pkg = os.path.relpath(os.path.dirname(p), '/repo/internal')
    if pkg == '.':
        pkg = 'internal'
    cur = None
    for l in open(p):
        m = re.match(r'//@ (func|iface) (.+)$', l.strip())
        if m:
            cur = (m.group(1), pkg + '.' + m.group(2).strip())
            contracted[cur] = False
            continue
        if cur and l.startswith('//@   ') and l[6:].split()[0] in ('trusted', 'skip', 'inline', 'unreachable'):
            contracted[cur] = True
missing = sorted(k[1] for k, exempt in contracted.items() if k[0] == 'func' and not exempt and k[1] not in verified)
print("contracted functions: %d, verified by some check: %d, trusted/inline/skip: %d, unverified: %d" % (
    sum(1 for k in contracted if k[0] == 'func'), sum(1 for k in contracted if k[0] == 'func' and k[1] in verified),
    sum(1 for k, e in contracted.items() if k[0] == 'func' and e), len(missing)))
for m in missing:
    print("  unverified:", m)
sys.exit(1 if missing else 0)
