#!/usr/bin/env python3
"""Verify a seeded change and run the property's check against it.

usage: seedverify.py <PROP> <patch.diff> <demo_test.go> <pkg dir for demo> <demo -run regex> [--name seedname]
Works in a scratch worktree of /repo HEAD under /tmp (removed afterwards); then applies the patch to
/repo itself only for the duration of the govc check and reverts it."""
import subprocess, sys, os, shutil, json, tempfile
ENV=dict(os.environ, GOFLAGS="-mod=mod", GOPROXY="off", GOSUMDB="off", GOTOOLCHAIN="local", DTAIL_HOSTNAME_OVERRIDE="testhost")
def sh(cmd, cwd=None, ok=None):
    r=subprocess.run(cmd, cwd=cwd, env=ENV, capture_output=True, text=True)
    return r.returncode, (r.stdout+r.stderr)
prop, patch, demo, pkgdir, runre = sys.argv[1:6]
name = prop
if '--name' in sys.argv: name = sys.argv[sys.argv.index('--name')+1]
out={"property":prop,"patch":patch}
wt=tempfile.mkdtemp(prefix="sv-"); os.rmdir(wt)
sh(["git","-C","/repo","worktree","add","-q","--detach",wt,"HEAD"])
try:
    rc,o=sh(["git","apply",patch],cwd=wt); out["applies_to_current_head"]=(rc==0)
    if rc!=0:
        rc,o2=sh(["git","apply","-3",patch],cwd=wt); out["applies_with_3way"]=(rc==0); 
        if rc!=0:
            print(json.dumps(out,indent=1)); print(o); sys.exit(1)
    rc,o=sh(["go","build","./..."],cwd=wt); out["builds"]=(rc==0)
    rc,o=sh(["go","test","-vet=off","-count=1","./..."],cwd=wt); out["existing_tests_pass"]=(rc==0)
    dst=os.path.join(wt,pkgdir,os.path.basename(demo)); shutil.copy(demo,dst)
    rc,o=sh(["go","test","-vet=off","-count=1","-run",runre,"./"+pkgdir],cwd=wt); out["demo_fails_with_change"]=(rc!=0); out["demo_output_with_change"]=o[-1500:]
    # revert the source change only
    src=[l[6:] for l in open(patch).read().splitlines() if l.startswith("+++ b/")]
    sh(["git","checkout","--"]+src,cwd=wt)
    rc,o=sh(["go","test","-vet=off","-count=1","-run",runre,"./"+pkgdir],cwd=wt); out["demo_passes_without_change"]=(rc==0)
    if rc!=0: out["demo_output_without_change"]=o[-1500:]
finally:
    sh(["git","-C","/repo","worktree","remove","--force",wt]); shutil.rmtree(wt,ignore_errors=True)
# run the check against /repo with the patch applied
rc,o=sh(["git","-C","/repo","apply",patch])
if rc!=0: rc,o=sh(["git","-C","/repo","apply","-3",patch])
try:
    res=tempfile.mkdtemp(prefix="sv-out-")
    e=dict(ENV, VERIF_OUT=res)
    r=subprocess.run(["/verif/bin/govc","check","--property",prop,"--tier","quick"],env=e,capture_output=True,text=True)
    viol=[l for l in r.stdout.splitlines() if l.startswith("VIOLATION")]
    out["check_exit"]=r.returncode
    out["check_violations"]=[v.split("obligation=")[-1] if "obligation=" in v else v for v in viol]
    out["check_summary"]=r.stdout.splitlines()[-1] if r.stdout else ""
    shutil.rmtree(res,ignore_errors=True)
finally:
    sh(["git","-C","/repo","checkout","--","."]); sh(["git","-C","/repo","clean","-fdq","--","internal","cmd"])
print(json.dumps(out,indent=1))
