#!/usr/bin/env python3
"""seedrerun.py [--jobs N] [--only substr]: re-run every stored seeded change against its property's check.

Each /verif/seeded/<name>/patch.diff is applied to a scratch git worktree of
/repo HEAD (outside /repo and /verif, removed right afterwards); the check of
the seed's property must exit 1 there.  Prints one line per seed and
"seeds: N, M not caught".  (Patches that no longer apply to HEAD, e.g. because
a later fix: commit touched the same lines, are reported as 'stale'.)
"""
import json, os, subprocess, sys, tempfile, glob, shutil, concurrent.futures, argparse

VERIF = "/verif"
REPO = "/repo"
ENV = dict(os.environ, GOFLAGS="-mod=mod", GOPROXY="off", GOSUMDB="off", GOTOOLCHAIN="local")

def run_one(d):
    name = os.path.basename(d)
    meta = json.load(open(os.path.join(d, "meta.json")))
    wt = tempfile.mkdtemp(prefix="govc-seed-"); os.rmdir(wt)
    out = tempfile.mkdtemp(prefix="govc-seed-out-")
    try:
        subprocess.check_call(["git", "-C", REPO, "worktree", "add", "-q", "--detach", wt, "HEAD"], stdout=subprocess.DEVNULL, stderr=subprocess.DEVNULL)
        r = subprocess.run(["git", "-C", wt, "apply", "--3way", os.path.join(d, "patch.diff")], capture_output=True, text=True)
        if r.returncode != 0:
            return name, None, "stale: patch does not apply to HEAD"
        b = subprocess.run(["go", "build", "./..."], cwd=wt, capture_output=True, text=True, env=ENV)
        if b.returncode != 0:
            return name, None, "stale: does not compile on HEAD"
        env = dict(ENV, VERIF_REPO=wt, VERIF_OUT=out, GOVC_NO_REPLAY="1")
        r = subprocess.run([os.path.join(VERIF, "bin", "govc"), "check", "--property", meta["property"], "--tier", "quick"], capture_output=True, text=True, env=env)
        viol = [l.split("obligation=")[-1] for l in r.stdout.splitlines() if l.startswith("VIOLATION")]
        return name, r.returncode == 1 and bool(viol), "; ".join(viol)[:300]
    finally:
        subprocess.run(["git", "-C", REPO, "worktree", "remove", "--force", wt], stdout=subprocess.DEVNULL, stderr=subprocess.DEVNULL)
        shutil.rmtree(wt, ignore_errors=True)
        shutil.rmtree(out, ignore_errors=True)

def main():
    ap = argparse.ArgumentParser()
    ap.add_argument("--jobs", type=int, default=5)
    ap.add_argument("--only")
    a = ap.parse_args()
    dirs = sorted(d for d in glob.glob(os.path.join(VERIF, "seeded", "*")) if os.path.exists(os.path.join(d, "meta.json")))
    if a.only:
        dirs = [d for d in dirs if a.only in d]
    missed = stale = 0
    with concurrent.futures.ThreadPoolExecutor(max_workers=a.jobs) as ex:
        for name, ok, detail in ex.map(run_one, dirs):
            tag = "stale " if ok is None else ("caught" if ok else "MISSED")
            print("%-7s %-45s %s" % (tag, name, detail))
            missed += ok is False
            stale += ok is None
    print("seeds: %d, %d not caught, %d stale" % (len(dirs), missed, stale))
    subprocess.run(["git", "-C", REPO, "worktree", "prune"])
    sys.exit(1 if missed else 0)

if __name__ == "__main__":
    main()
