package main

// Spec functions for the mapreduce query language (C11, C05), written from
// doc/querylanguage.md: the clause keywords, the aggregation names and the
// where-operators with the codes of the corresponding Go constants.

func init() {
	str1 := func(env *SpecEnv, args []Val, what string) (*Term, bool) {
		if len(args) < 1 {
			env.errf("%s(s)", what)
			return Str(""), false
		}
		t, ok := env.scalar(args[0])
		if !ok || t.S != SString {
			env.errf("%s(s): string expected", what)
			return Str(""), false
		}
		return t, true
	}
	specDefs["lower"] = func(env *SpecEnv, args []Val) Val {
		t, _ := str1(env, args, "lower")
		if t.Op == "str" {
			return Str(asciiLower(t.Str))
		}
		return UF("strLower", SString, t)
	}
	specDefs["upper"] = func(env *SpecEnv, args []Val) Val {
		t, _ := str1(env, args, "upper")
		return UF("strUpper", SString, t)
	}
	oneOf := func(t *Term, names ...string) *Term {
		var ds []*Term
		for _, n := range names {
			ds = append(ds, Eq(t, Str(n)))
		}
		return Or(ds...)
	}
	// clauseKeyword(s): s (already lower case) is one of the clause keywords
	specDefs["clauseKeyword"] = func(env *SpecEnv, args []Val) Val {
		t, _ := str1(env, args, "clauseKeyword")
		return oneOf(t, "select", "from", "where", "set", "group", "rorder", "order", "interval", "limit", "outfile", "logformat")
	}
	table := func(t *Term, m [][2]interface{}) *Term {
		res := Int(0)
		for i := len(m) - 1; i >= 0; i-- {
			res = Ite(Eq(t, Str(m[i][0].(string))), Int(int64(m[i][1].(int))), res)
		}
		return res
	}
	// aggOp(s): the AggregateOperation named s, 0 if s names none
	specDefs["aggOp"] = func(env *SpecEnv, args []Val) Val {
		t, _ := str1(env, args, "aggOp")
		return table(t, [][2]interface{}{{"count", 1}, {"sum", 2}, {"min", 3}, {"max", 4}, {"last", 5}, {"avg", 6}, {"len", 7}})
	}
	// whereOp(s): the QueryOperation the (lower case) operator s denotes, 0 if none
	specDefs["whereOp"] = func(env *SpecEnv, args []Val) Val {
		t, _ := str1(env, args, "whereOp")
		return table(t, [][2]interface{}{
			{"eq", 1}, {"ne", 2}, {"contains", 3}, {"ncontains", 4}, {"lacks", 4}, {"hasprefix", 5}, {"nhasprefix", 6},
			{"hassuffix", 7}, {"nhassuffix", 8},
			{"==", 10}, {"!=", 11}, {"<", 12}, {"<=", 13}, {"=<", 13}, {">", 14}, {">=", 15}, {"=>", 15}})
	}
	// isFloat(s) / floatOf(s): strconv.ParseFloat(s, 64) succeeds / its value
	specDefs["isFloat"] = func(env *SpecEnv, args []Val) Val {
		t, _ := str1(env, args, "isFloat")
		return UF("parseFloatOk", SBool, t)
	}
	specDefs["floatOf"] = func(env *SpecEnv, args []Val) Val {
		t, _ := str1(env, args, "floatOf")
		return UF("parseFloat", SReal, t)
	}
	// backquoted(s): `…` ; unquote(s): s without the back-quotes if it has them
	bq := func(t *Term) *Term {
		n := StrLen(t)
		return And(Ge(n, Int(2)), Eq(StrAt(t, Int(0)), Str("`")), Eq(StrAt(t, Sub(n, Int(1))), Str("`")))
	}
	specDefs["backquoted"] = func(env *SpecEnv, args []Val) Val {
		t, _ := str1(env, args, "backquoted")
		return bq(t)
	}
	specDefs["unquote"] = func(env *SpecEnv, args []Val) Val {
		t, _ := str1(env, args, "unquote")
		return Ite(bq(t), Substr(t, Int(1), Sub(StrLen(t), Int(2))), t)
	}
}

func asciiLower(s string) string {
	b := []byte(s)
	for i, c := range b {
		if c >= 'A' && c <= 'Z' {
			b[i] = c + 32
		}
	}
	return string(b)
}
