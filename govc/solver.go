package main

// Solver portfolio: z3 4.8.12, z3-new 5.1.0, cvc5 1.0.x raced per query.

import (
	"bytes"
	"context"
	"fmt"
	"os/exec"
	"sort"
	"strings"
	"sync"
	"time"
)

type SolverResult struct {
	Status  string // unsat | sat | unknown
	Backend string
	Ms      int64
	Model   map[string]string // var -> value text (only for sat)
	Raw     string
	All     map[string]string // backend -> status (every backend that answered before the race ended)
}

type solverSpec struct {
	name string
	argv func(timeoutS int) []string
}

var solverSpecs = []solverSpec{
	{"z3-new-5.1.0", func(t int) []string { return []string{"z3-new", "-in", fmt.Sprintf("-T:%d", t)} }},
	{"cvc5-1.0", func(t int) []string {
		return []string{"cvc5", "--lang=smt2", "--strings-exp", "--produce-models", fmt.Sprintf("--tlimit=%d", t*1000)}
	}},
	{"z3-4.8.12", func(t int) []string { return []string{"/usr/bin/z3", "-in", fmt.Sprintf("-T:%d", t)} }},
}

var solverSem = make(chan struct{}, 12)

// buildQuery renders an SMT-LIB script asserting all of asserts and asking
// for the values of the listed variables.
func buildQuery(asserts []*Term, want []*Term) string {
	ds := newDeclSet()
	for _, a := range asserts {
		ds.walk(a, nil)
	}
	var sb strings.Builder
	sb.WriteString("(set-option :produce-models true)\n(set-logic ALL)\n")
	sb.WriteString(ds.text())
	for _, a := range asserts {
		sb.WriteString("(assert ")
		a.write(&sb)
		sb.WriteString(")\n")
	}
	sb.WriteString("(check-sat)\n")
	var vals []string
	seen := map[string]bool{}
	for _, w := range want {
		if w.Op != "var" || seen[w.Name] {
			continue
		}
		if _, ok := ds.vars[w.Name]; !ok {
			continue
		}
		switch w.S.Name {
		case "Int", "Bool", "String", "Real":
			seen[w.Name] = true
			vals = append(vals, smtSym(w.Name))
		}
	}
	// also: closed array reads at literal indices and uninterpreted
	// applications over inputs (they carry slice elements, decoded payloads…)
	extra := 0
	var walk func(t *Term, bound bool)
	walk = func(t *Term, bound bool) {
		if extra > 80 {
			return
		}
		if t.Op == "forall" || t.Op == "exists" {
			return
		}
		ok := false
		switch t.Op {
		case "select":
			ok = t.Args[0].Op == "var" && t.Args[1].Op == "int"
		case "uf":
			ok = len(t.Args) > 0
			for _, a := range t.Args {
				if !(a.Op == "var" || a.Op == "int" || a.Op == "str" || (a.Op == "select" && a.Args[0].Op == "var" && a.Args[1].Op == "int")) {
					ok = false
				}
			}
		case "str.len":
			ok = t.Args[0].Op == "var"
		}
		if ok {
			switch t.S.Name {
			case "Array":
			default:
				k := t.String()
				if !seen[k] {
					seen[k] = true
					vals = append(vals, k)
					extra++
				}
			}
		}
		for _, a := range t.Args {
			walk(a, bound)
		}
	}
	for _, a := range asserts {
		walk(a, false)
	}
	// the first elements of every input slice
	var arrNames []string
	for n, srt := range ds.vars {
		if srt.Name == "Array" && srt.Idx.Name == "Int" && srt.Elem.Name != "Array" && strings.HasSuffix(n, "$arr") && !strings.Contains(n, "§") {
			arrNames = append(arrNames, n)
		}
	}
	sort.Strings(arrNames)
	for _, n := range arrNames {
		for i := 0; i < 4; i++ {
			k := fmt.Sprintf("(select %s %d)", smtSym(n), i)
			if !seen[k] {
				seen[k] = true
				vals = append(vals, k)
			}
		}
	}
	if len(vals) > 0 {
		sb.WriteString("(get-value (" + strings.Join(vals, " ") + "))\n")
	}
	return sb.String()
}

func runOne(ctx context.Context, spec solverSpec, query string, timeoutS int) (string, string) {
	argv := spec.argv(timeoutS)
	cmd := exec.CommandContext(ctx, argv[0], argv[1:]...)
	cmd.Stdin = strings.NewReader(query)
	var out bytes.Buffer
	cmd.Stdout = &out
	cmd.Stderr = &out
	_ = cmd.Run()
	s := out.String()
	first := strings.TrimSpace(strings.SplitN(s, "\n", 2)[0])
	switch first {
	case "sat", "unsat":
		return first, s
	}
	// out of time (the solver's own limit, or ours) is not the same answer as
	// "unknown": more time can help
	if first == "timeout" || strings.Contains(s, "interrupted by timeout") || strings.Contains(s, "timeout") || ctx.Err() != nil || strings.TrimSpace(s) == "" {
		return "timeout", s
	}
	return "unknown", s
}

// Solve races the portfolio. all=true waits for every backend (cross-check).
func Solve(query string, timeoutS int, all bool) SolverResult {
	return SolveVariants([]string{query}, timeoutS, all)
}

// SolveVariants races the portfolio over several equisatisfiable renderings
// of one query (variant 0 is the plain one).
func SolveVariants(queries []string, timeoutS int, all bool) SolverResult {
	solverSem <- struct{}{}
	defer func() { <-solverSem }()
	start := time.Now()
	ctx, cancel := context.WithTimeout(context.Background(), time.Duration(timeoutS+2)*time.Second)
	defer cancel()
	type ans struct{ backend, status, raw string }
	ch := make(chan ans, len(solverSpecs)*len(queries))
	var wg sync.WaitGroup
	for qi, query := range queries {
		for _, sp := range solverSpecs {
			wg.Add(1)
			go func(sp solverSpec, qi int, query string) {
				defer wg.Done()
				st, raw := runOne(ctx, sp, query, timeoutS)
				name := sp.name
				if qi > 0 {
					name += "/strings-abstracted"
				}
				ch <- ans{name, st, raw}
			}(sp, qi, query)
		}
	}
	go func() { wg.Wait(); close(ch) }()
	res := SolverResult{Status: "unknown", All: map[string]string{}}
	for a := range ch {
		res.All[a.backend] = a.status
		if a.status == "unknown" || a.status == "timeout" {
			if res.Raw == "" {
				res.Raw = a.backend + ": " + truncate(a.raw, 400)
			}
			continue
		}
		if res.Status == "unknown" {
			res.Status = a.status
			res.Backend = a.backend
			res.Raw = a.raw
			res.Ms = time.Since(start).Milliseconds()
			if a.status == "sat" {
				res.Model = parseGetValue(a.raw)
			}
			if !all {
				cancel()
				// drain remaining answers in background
				go func() {
					for range ch {
					}
				}()
				return res
			}
		} else if a.status != res.Status {
			res.Raw += "\nDISAGREEMENT: " + a.backend + " says " + a.status
			res.Status = "disagree"
		}
	}
	if res.Ms == 0 {
		res.Ms = time.Since(start).Milliseconds()
	}
	return res
}

func truncate(s string, n int) string {
	if len(s) <= n {
		return s
	}
	return s[:n] + "..."
}

// parseGetValue parses ((x 1) (y "a") (z (- 3)) (w true)) loosely.
func parseGetValue(raw string) map[string]string {
	m := map[string]string{}
	idx := strings.Index(raw, "\n")
	if idx < 0 {
		return m
	}
	s := strings.TrimSpace(raw[idx+1:])
	if !strings.HasPrefix(s, "(") {
		return m
	}
	// tokenise into s-expressions
	toks := sexpParse(s)
	if len(toks) == 0 {
		return m
	}
	top := toks[0]
	for _, pair := range top.kids {
		if len(pair.kids) == 2 {
			key := pair.kids[0].text()
			if !pair.kids[0].list {
				key = strings.Trim(pair.kids[0].atom, "|")
			}
			m[key] = pair.kids[1].text()
		}
	}
	return m
}

type sexp struct {
	atom string
	kids []*sexp
	list bool
}

func (s *sexp) text() string {
	if !s.list {
		return s.atom
	}
	var parts []string
	for _, k := range s.kids {
		parts = append(parts, k.text())
	}
	return "(" + strings.Join(parts, " ") + ")"
}

func sexpParse(s string) []*sexp {
	var stack []*sexp
	root := &sexp{list: true}
	cur := root
	i := 0
	for i < len(s) {
		c := s[i]
		switch {
		case c == '(':
			n := &sexp{list: true}
			cur.kids = append(cur.kids, n)
			stack = append(stack, cur)
			cur = n
			i++
		case c == ')':
			if len(stack) == 0 {
				return root.kids
			}
			cur = stack[len(stack)-1]
			stack = stack[:len(stack)-1]
			i++
		case c == ' ' || c == '\n' || c == '\t' || c == '\r':
			i++
		case c == '"':
			j := i + 1
			for j < len(s) {
				if s[j] == '"' {
					if j+1 < len(s) && s[j+1] == '"' {
						j += 2
						continue
					}
					break
				}
				j++
			}
			cur.kids = append(cur.kids, &sexp{atom: s[i:min(j+1, len(s))]})
			i = j + 1
		case c == '|':
			j := strings.IndexByte(s[i+1:], '|')
			if j < 0 {
				j = len(s) - i - 2
			}
			cur.kids = append(cur.kids, &sexp{atom: s[i : i+j+2]})
			i = i + j + 2
		default:
			j := i
			for j < len(s) && !strings.ContainsRune("() \n\t\r", rune(s[j])) {
				j++
			}
			cur.kids = append(cur.kids, &sexp{atom: s[i:j]})
			i = j
		}
	}
	return root.kids
}

// decodeSMTString turns an SMT-LIB string literal (with quotes) into bytes.
func decodeSMTString(lit string) string {
	if len(lit) >= 2 && lit[0] == '"' {
		lit = lit[1 : len(lit)-1]
	}
	var out []byte
	for i := 0; i < len(lit); i++ {
		c := lit[i]
		if c == '"' && i+1 < len(lit) && lit[i+1] == '"' {
			out = append(out, '"')
			i++
			continue
		}
		if c == '\\' && i+1 < len(lit) && lit[i+1] == 'u' {
			// \u{X..} or \uXXXX
			if i+2 < len(lit) && lit[i+2] == '{' {
				j := strings.IndexByte(lit[i:], '}')
				if j > 0 {
					var v int
					fmt.Sscanf(lit[i+3:i+j], "%x", &v)
					out = append(out, byte(v&0xff))
					i += j
					continue
				}
			} else if i+5 < len(lit) {
				var v int
				if _, err := fmt.Sscanf(lit[i+2:i+6], "%x", &v); err == nil {
					out = append(out, byte(v&0xff))
					i += 5
					continue
				}
			}
		}
		if c == '\\' && i+1 < len(lit) && lit[i+1] == 'x' && i+3 < len(lit) {
			var v int
			if _, err := fmt.Sscanf(lit[i+2:i+4], "%x", &v); err == nil {
				out = append(out, byte(v))
				i += 3
				continue
			}
		}
		out = append(out, c)
	}
	return string(out)
}
