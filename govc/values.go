package main

// Symbolic values, objects and the per-path state.

import (
	"fmt"
	"go/types"
	"sort"
	"strings"
	"sync"

	"golang.org/x/tools/go/ssa"
)

// Val is one of: *Term (scalar), *PtrV, *SliceV, *StructV, *TupleV, *ArrV,
// *MapV, *ChanV, *IfaceV, *FuncV, *AbsV, *MapStore, *ChanStore.
type Val interface{}

type PathElem struct {
	Field int   // struct field index, or -1
	Index *Term // array index, or nil
}

type PtrV struct {
	Nil  *Term // Bool
	Obj  *Object
	Path []PathElem
	Elem types.Type // pointee type
}

type SliceV struct {
	Nil           *Term
	Obj           *Object // backing array object, holds *ArrV
	Off, Len, Cap *Term
	Elem          types.Type
}

type StructV struct {
	Typ types.Type // named or struct type
	F   []Val
}

type TupleV struct{ E []Val }

// ArrV is the content of a Go array or of a slice's backing store.
type ArrV struct {
	Elem  types.Type
	T     *Term // (Array Int elemSort), or String when IsStr
	IsStr bool
	N     *Term // number of elements (may be symbolic for backing stores)
}

type MapV struct {
	Nil  *Term
	Obj  *Object
	K, V types.Type
}

type MapStore struct {
	Dom *Term // Array K Bool
	Val *Term // Array K Vsort
	Len *Term
}

type ChanV struct {
	Nil  *Term
	Obj  *Object
	Elem types.Type
}

type ChanStore struct {
	Cap    *Term
	Closed *Term
	// ghost: concatenation / count of everything sent through this channel
	// by the function under verification (String for byte-like payloads).
	Sent      *Term          // String ghost (payload concatenation), may be nil
	SentCnt   *Term          // Int ghost: number of sends
	RecvCnt   *Term          // Int ghost: number of receives
	Held      *Term          // Int ghost: tokens this function holds (semaphore typestate)
	Len       *Term          // exact fill level (meaningful for channels used sequentially, `seq:`)
	LastCount *Term          // ghost: Count field of the last element sent (payloads with a Count field)
	Invs      []*ChanInvDecl // channel invariants adopted on this path
	Local     bool           // made by the function under verification on this path
}

type IfaceV struct {
	Nil    *Term
	Dyn    types.Type // nil when unknown
	V      Val        // when Dyn known
	Opaque *Term      // identity when unknown
	Typ    types.Type // static interface type
}

type FuncV struct {
	Nil    *Term
	Fn     interface{} // *ssa.Function when known
	Bind   []Val
	Opaque *Term
	Sig    *types.Signature
}

// AbsV is an abstract (library) object with ghost fields.
type AbsV struct {
	Typ types.Type
	F   map[string]Val
}

// OpaqueV is a value of a type the translation does not model.
type OpaqueV struct {
	T   *Term
	Typ types.Type
}

type Object struct {
	id       int
	name     string
	typ      types.Type
	lazy     bool   // contents come from outside (symbolic on first access)
	zero     bool   // contents start as the zero value
	init     Val    // explicit initial value
	pre      bool   // existed before the function under verification started (caller visible)
	global   bool   // a package-level variable
	kind     string // "" memory cell; "map" / "chan" / "arr": storage behind a map, channel or slice value
	splitOf  *Term  // storage of strings.Split(splitOf, splitSep)'s result (immutable metadata)
	splitSep string
	splitLen *Term
}

func (o *Object) String() string { return fmt.Sprintf("#%d(%s)", o.id, o.name) }

// ---- state ----

type Frame struct {
	fn     *ssa.Function
	regs   map[ssa.Value]Val
	names  map[string]Val // source variable name -> current value (from DebugRef / phi comments)
	defers []deferred
	k      func(s *State, ret Val) // continuation at return
	prefix string                  // label prefix for inlined frames
	depth  int
}

type writeRec struct {
	obj   *Object
	fpath []int // static field path inside the object (until the first array index)
}

func (r writeRec) key() string {
	k := fmt.Sprintf("%d", r.obj.id)
	for _, f := range r.fpath {
		k += fmt.Sprintf(".%d", f)
	}
	return k
}

type State struct {
	heads  map[*loopInfo]*State // snapshot at the head of each loop being executed (for `prev` in step clauses)
	binds  map[string]Val       // results of calls named by bind clauses of the function under verification
	heap   map[int]Val
	pc     []*Term
	writes map[string]writeRec
	ghost  map[string]Val
	dead   bool
	frames []*Frame
	trace  []int
	old    *State // snapshot for old() at the innermost contract boundary (nil = pristine entry)
}

type deferred struct {
	call *ssa.CallCommon
	fn   Val
	args []Val
	site ssa.Instruction
}

func newState() *State {
	return &State{heap: map[int]Val{}, writes: map[string]writeRec{}, ghost: map[string]Val{}}
}

func (s *State) top() *Frame { return s.frames[len(s.frames)-1] }

func (f *Frame) clone() *Frame {
	n := &Frame{fn: f.fn, k: f.k, prefix: f.prefix, depth: f.depth}
	n.regs = make(map[ssa.Value]Val, len(f.regs))
	for k, v := range f.regs {
		n.regs[k] = v
	}
	n.names = make(map[string]Val, len(f.names))
	for k, v := range f.names {
		n.names[k] = v
	}
	n.defers = append([]deferred(nil), f.defers...)
	return n
}

func (s *State) clone() *State {
	n := &State{heap: make(map[int]Val, len(s.heap)), writes: make(map[string]writeRec, len(s.writes)), ghost: make(map[string]Val, len(s.ghost))}
	if len(s.heads) > 0 {
		n.heads = make(map[*loopInfo]*State, len(s.heads))
		for k, h := range s.heads {
			n.heads[k] = h
		}
	}
	if len(s.binds) > 0 {
		n.binds = make(map[string]Val, len(s.binds))
		for k, v := range s.binds {
			n.binds[k] = v
		}
	}
	for k, v := range s.heap {
		n.heap[k] = v
	}
	for k, v := range s.writes {
		n.writes[k] = v
	}
	for k, v := range s.ghost {
		n.ghost[k] = v
	}
	n.pc = append([]*Term(nil), s.pc...)
	n.trace = append([]int(nil), s.trace...)
	for _, f := range s.frames {
		n.frames = append(n.frames, f.clone())
	}
	n.old = s.old
	n.dead = s.dead
	return n
}

func (s *State) assume(t *Term) {
	if t.IsTrue() {
		return
	}
	if t.IsFalse() {
		s.dead = true
	}
	if t.Op == "and" {
		for _, a := range t.Args {
			s.assume(a)
		}
		return
	}
	// cheap contradiction check against existing conjuncts
	nt := Not(t)
	for _, p := range s.pc {
		if termEq(p, nt) {
			s.dead = true
		}
		if termEq(p, t) {
			return
		}
	}
	s.pc = append(s.pc, t)
}

// ---- type helpers ----

func under(t types.Type) types.Type {
	for {
		u := t.Underlying()
		if u == t {
			return t
		}
		t = u
	}
}

func typeName(t types.Type) string {
	return types.TypeString(t, func(p *types.Package) string { return p.Name() })
}

func isByteType(t types.Type) bool {
	b, ok := under(t).(*types.Basic)
	return ok && (b.Kind() == types.Uint8 || b.Kind() == types.Byte)
}

func isStringType(t types.Type) bool {
	b, ok := under(t).(*types.Basic)
	return ok && b.Info()&types.IsString != 0
}

func isIntType(t types.Type) bool {
	b, ok := under(t).(*types.Basic)
	return ok && b.Info()&types.IsInteger != 0
}
func isFloatType(t types.Type) bool {
	b, ok := under(t).(*types.Basic)
	return ok && b.Info()&types.IsFloat != 0
}
func isBoolType(t types.Type) bool {
	b, ok := under(t).(*types.Basic)
	return ok && b.Info()&types.IsBoolean != 0
}

// intRange returns inclusive bounds of an integer type (nil = unbounded side).
func intRange(t types.Type) (lo, hi *Term) {
	b, ok := under(t).(*types.Basic)
	if !ok {
		return nil, nil
	}
	switch b.Kind() {
	case types.Uint8:
		return Int(0), Int(255)
	case types.Int8:
		return Int(-128), Int(127)
	case types.Uint16:
		return Int(0), Int(65535)
	case types.Int16:
		return Int(-32768), Int(32767)
	case types.Uint32:
		return Int(0), Int(4294967295)
	case types.Int32:
		return Int(-2147483648), Int(2147483647)
	case types.Uint, types.Uint64, types.Uintptr:
		return Int(0), nil
	}
	return nil, nil
}

// abstract library types: ghost fields by qualified type name
var abstractTypes = map[string][]struct {
	Name string
	S    *Sort
}{
	"bytes.Buffer":         {{"content", SString}},
	"strings.Builder":      {{"content", SString}, {"plain", SString}},
	"sync.Mutex":           {{"locked", SBool}},
	"sync.RWMutex":         {{"locked", SBool}},
	"sync.Once":            {{"done", SBool}},
	"sync.WaitGroup":       {},
	"sync.Pool":            {},
	"os.File":              {{"path", SString}, {"pos", SString}},
	"bufio.Reader":         {{"src", SString}},
	"bufio.Writer":         {{"path", SString}, {"buffered", SString}},
	"bufio.Scanner":        {{"path", SString}, {"consumed", SString}, {"line", SString}, {"failed", SBool}},
	"regexp.Regexp":        {{"pattern", SString}},
	"time.Time":            {},
	"time.Location":        {},
	"math/rand.Rand":       {},
	"context.cancelCtx":    {},
	"compress/gzip.Reader": {},
	"net.TCPAddr":          {},
	"sync/atomic.Int32":    {},
}

func qualifiedTypeName(t types.Type) string {
	if n, ok := t.(*types.Named); ok {
		if n.Obj().Pkg() != nil {
			return n.Obj().Pkg().Path() + "." + n.Obj().Name()
		}
		return n.Obj().Name()
	}
	return ""
}

func isRepoType(t types.Type) bool {
	q := qualifiedTypeName(t)
	return strings.HasPrefix(q, "github.com/mimecast/dtail/")
}

// ---- engine-level value construction ----

type Engine struct {
	dtDepth int // nesting of structDT calls of this engine (see dtBuildMu)
	fnMu    sync.Mutex
	fnCodes map[*ssa.Function]int64
	// onFreshStruct is called whenever a symbolic struct value of a named
	// type is materialised from outside (visible-state type invariants).
	onFreshStruct   func(t types.Type, v *StructV, facts *[]*Term)
	nextObj         int
	objByName       map[string]*Object
	dtByType        map[string]*DTDecl
	ifaces          map[int64]*IfaceV
	chanInvs        map[int][]*ChanInvDecl // invariants of channels received from outside, by object id
	semaphores      map[int]bool           // channel objects used as counting semaphores
	owner           map[int]writeRec       // storage object id -> struct location last known to hold the reference
	unmodelled      map[string]int         // names of havoc'd / unmodelled constructs → count
	assumptionsUsed map[string]bool
}

func newEngine() *Engine {
	return &Engine{semaphores: map[int]bool{}, owner: map[int]writeRec{}, chanInvs: map[int][]*ChanInvDecl{}, ifaces: map[int64]*IfaceV{}, objByName: map[string]*Object{}, dtByType: map[string]*DTDecl{}, unmodelled: map[string]int{}, assumptionsUsed: map[string]bool{}}
}

func (e *Engine) note(what string)       { e.unmodelled[what]++ }
func (e *Engine) assumeNote(what string) { e.assumptionsUsed[what] = true }

// namedObject returns the canonical object for an access-path name, so that
// the same symbolic location is the same SMT variable on every path.
func (e *Engine) storeObject(name string, t types.Type, lazy bool, kind string) *Object {
	o := e.namedObject(name, t, lazy)
	o.kind = kind
	return o
}

func (e *Engine) namedObject(name string, t types.Type, lazy bool) *Object {
	key := name
	if o, ok := e.objByName[key]; ok {
		return o
	}
	e.nextObj++
	o := &Object{id: e.nextObj, name: name, typ: t, lazy: lazy, zero: !lazy, pre: lazy && !strings.Contains(name, "§")}
	e.objByName[key] = o
	return o
}

func (e *Engine) newObject(name string, t types.Type) *Object {
	// allocation sites are unique per name within one function run; reuse so
	// that variable names stay stable across paths.
	return e.namedObject(name, t, false)
}

// elemSort is the SMT sort used when a value of type t is stored inside an
// SMT array / datatype (array elements, map values, channel payloads).
func (e *Engine) elemSort(t types.Type) *Sort {
	switch u := under(t).(type) {
	case *types.Basic:
		switch {
		case u.Info()&types.IsBoolean != 0:
			return SBool
		case u.Info()&types.IsString != 0:
			return SString
		case u.Info()&types.IsInteger != 0:
			return SInt
		case u.Info()&types.IsFloat != 0:
			return SReal
		}
		return SInt
	case *types.Struct:
		if _, abs := abstractTypes[qualifiedTypeName(t)]; abs {
			return SInt
		}
		return e.structDT(t, u).S
	case *types.Slice:
		if isByteType(u.Elem()) {
			return SString
		}
		return e.sliceDT(u.Elem()).S
	case *types.Array:
		if isByteType(u.Elem()) {
			return SString
		}
		return SArr(SInt, e.elemSort(u.Elem()))
	}
	return SInt // references: opaque handles
}

func sortKey(t types.Type) string {
	s := typeName(t)
	r := strings.NewReplacer("*", "P", "[", "_", "]", "_", ".", "_", " ", "", "{", "_", "}", "_", ";", "_", "(", "_", ")", "_", ",", "_", "/", "_")
	return r.Replace(s)
}

var dtMu sync.Mutex
var globalDT = map[string]*DTDecl{}

// dtBuildMu serialises the construction of struct datatypes across the
// executors running in parallel: a declaration is entered into globalDT before
// its fields are known (to cut recursion through self-referential types), and
// must not be seen by another goroutine in that state. An engine holds it for
// its outermost structDT call only (dtDepth), so recursion does not deadlock.
var dtBuildMu sync.Mutex

func (e *Engine) structDT(t types.Type, u *types.Struct) *DTDecl {
	if e.dtDepth == 0 {
		dtBuildMu.Lock()
		defer dtBuildMu.Unlock()
	}
	e.dtDepth++
	defer func() { e.dtDepth-- }()
	key := "S_" + sortKey(t)
	dtMu.Lock()
	if d, ok := globalDT[key]; ok {
		dtMu.Unlock()
		return d
	}
	// reserve to cut recursion
	d := &DTDecl{Name: key, S: &Sort{Name: key}}
	globalDT[key] = d
	dtMu.Unlock()
	var fields []string
	var sorts []*Sort
	for i := 0; i < u.NumFields(); i++ {
		fields = append(fields, fmt.Sprintf("f%d_%s", i, u.Field(i).Name()))
		sorts = append(sorts, e.elemSort(u.Field(i).Type()))
	}
	regMu.Lock()
	d.Fields = fields
	d.Sorts = sorts
	if _, dup := dtDecls[key]; !dup {
		dtDecls[key] = d
		dtOrder = append(dtOrder, key)
	}
	regMu.Unlock()
	return d
}

func (e *Engine) sliceDT(elem types.Type) *DTDecl {
	key := "L_" + sortKey(elem)
	dtMu.Lock()
	d, ok := globalDT[key]
	dtMu.Unlock()
	if ok {
		return d
	}
	es := e.elemSort(elem)
	d = DeclareDT(key, []string{"len", "arr"}, []*Sort{SInt, SArr(SInt, es)})
	dtMu.Lock()
	globalDT[key] = d
	dtMu.Unlock()
	return d
}

// zeroTerm is the zero value of t in its elemSort encoding.
func (e *Engine) zeroTerm(t types.Type) *Term {
	s := e.elemSort(t)
	return e.zeroOfSort(s, t)
}

func (e *Engine) zeroOfSort(s *Sort, t types.Type) *Term {
	switch s.Name {
	case "Int":
		return Int(0)
	case "Bool":
		return TFalse
	case "String":
		return Str("")
	case "Real":
		return RealLit("0.0")
	case "Array":
		var et types.Type
		if a, ok := under(t).(*types.Array); ok {
			et = a.Elem()
		}
		if et != nil {
			return ConstArr(s, e.zeroTerm(et))
		}
		return ConstArr(s, e.zeroOfSort(s.Elem, nil))
	}
	regMu.Lock()
	d, ok := dtDecls[s.Name]
	regMu.Unlock()
	if ok {
		var args []*Term
		switch u := under(t).(type) {
		case *types.Struct:
			for i := 0; i < u.NumFields(); i++ {
				args = append(args, e.zeroTerm(u.Field(i).Type()))
			}
		case *types.Slice:
			args = []*Term{Int(0), ConstArr(d.Sorts[1], e.zeroTerm(u.Elem()))}
		default:
			for _, fs := range d.Sorts {
				args = append(args, e.zeroOfSort(fs, nil))
			}
		}
		return d.Mk(args...)
	}
	return Var("zero_"+s.Name, s)
}

// zeroVal is the Go zero value of t as a register-level Val.
func (e *Engine) zeroVal(t types.Type, name string) Val {
	switch u := under(t).(type) {
	case *types.Basic:
		switch {
		case u.Info()&types.IsBoolean != 0:
			return TFalse
		case u.Info()&types.IsString != 0:
			return Str("")
		case u.Info()&types.IsInteger != 0:
			return Int(0)
		case u.Info()&types.IsFloat != 0:
			return RealLit("0.0")
		case u.Kind() == types.UnsafePointer:
			return &OpaqueV{T: Int(0), Typ: t}
		}
		return Int(0)
	case *types.Pointer:
		return &PtrV{Nil: TTrue, Elem: u.Elem()}
	case *types.Slice:
		return &SliceV{Nil: TTrue, Off: Int(0), Len: Int(0), Cap: Int(0), Elem: u.Elem()}
	case *types.Struct:
		if fs, ok := abstractTypes[qualifiedTypeName(t)]; ok {
			a := &AbsV{Typ: t, F: map[string]Val{}}
			for _, f := range fs {
				a.F[f.Name] = e.zeroOfSort(f.S, nil)
			}
			return a
		}
		sv := &StructV{Typ: t}
		for i := 0; i < u.NumFields(); i++ {
			sv.F = append(sv.F, e.zeroVal(u.Field(i).Type(), name+"."+u.Field(i).Name()))
		}
		return sv
	case *types.Array:
		if isByteType(u.Elem()) {
			// fixed byte arrays: zero bytes
			return &ArrV{Elem: u.Elem(), IsStr: true, T: Str(strings.Repeat("\x00", int(min64(u.Len(), 4096)))), N: Int(u.Len())}
		}
		return &ArrV{Elem: u.Elem(), T: ConstArr(SArr(SInt, e.elemSort(u.Elem())), e.zeroTerm(u.Elem())), N: Int(u.Len())}
	case *types.Map:
		return &MapV{Nil: TTrue, K: u.Key(), V: u.Elem()}
	case *types.Chan:
		return &ChanV{Nil: TTrue, Elem: u.Elem()}
	case *types.Interface:
		return &IfaceV{Nil: TTrue, Typ: t}
	case *types.Signature:
		return &FuncV{Nil: TTrue, Sig: u}
	case *types.Tuple:
		tv := &TupleV{}
		for i := 0; i < u.Len(); i++ {
			tv.E = append(tv.E, e.zeroVal(u.At(i).Type(), fmt.Sprintf("%s#%d", name, i)))
		}
		return tv
	}
	return &OpaqueV{T: Int(0), Typ: t}
}

func min64(a, b int64) int64 {
	if a < b {
		return a
	}
	return b
}

// freshVal creates an unconstrained symbolic value of type t named name.
// Range facts of the type are appended to *facts.
func (e *Engine) freshVal(t types.Type, name string, facts *[]*Term) Val {
	switch u := under(t).(type) {
	case *types.Basic:
		switch {
		case u.Info()&types.IsBoolean != 0:
			return Var(name, SBool)
		case u.Info()&types.IsString != 0:
			return Var(name, SString)
		case u.Info()&types.IsInteger != 0:
			v := Var(name, SInt)
			lo, hi := intRange(t)
			if lo != nil {
				*facts = append(*facts, Ge(v, lo))
			}
			if hi != nil {
				*facts = append(*facts, Le(v, hi))
			}
			return v
		case u.Info()&types.IsFloat != 0:
			return Var(name, SReal)
		}
		return &OpaqueV{T: Var(name, SInt), Typ: t}
	case *types.Pointer:
		return &PtrV{Nil: Var(name+"$nil", SBool), Obj: e.namedObject("*"+name, u.Elem(), true), Elem: u.Elem()}
	case *types.Slice:
		ln := Var(name+"$len", SInt)
		cp := Var(name+"$cap", SInt)
		nl := Var(name+"$nil", SBool)
		*facts = append(*facts, Ge(ln, Int(0)), Ge(cp, ln), Implies(nl, Eq(cp, Int(0))))
		if es := sizeofType(u.Elem()); es > 0 {
			// an existing slice fits in the address space
			*facts = append(*facts, Le(cp, Int((1<<47)/es)))
		}
		if isByteType(u.Elem()) {
			*facts = append(*facts, Ge(StrLen(Var(name+"$arr", SString)), cp))
		}
		return &SliceV{Nil: nl, Obj: e.storeObject(name+"$arr", types.NewArray(u.Elem(), 0), true, "arr"), Off: Int(0), Len: ln, Cap: cp, Elem: u.Elem()}
	case *types.Struct:
		if fs, ok := abstractTypes[qualifiedTypeName(t)]; ok {
			a := &AbsV{Typ: t, F: map[string]Val{}}
			for _, f := range fs {
				a.F[f.Name] = Var(name+"."+f.Name, f.S)
			}
			return a
		}
		sv := &StructV{Typ: t}
		for i := 0; i < u.NumFields(); i++ {
			sv.F = append(sv.F, e.freshVal(u.Field(i).Type(), name+"."+u.Field(i).Name(), facts))
		}
		if e.onFreshStruct != nil {
			e.onFreshStruct(t, sv, facts)
		}
		return sv
	case *types.Array:
		if isByteType(u.Elem()) {
			v := Var(name, SString)
			*facts = append(*facts, Eq(StrLen(v), Int(u.Len())))
			return &ArrV{Elem: u.Elem(), IsStr: true, T: v, N: Int(u.Len())}
		}
		return &ArrV{Elem: u.Elem(), T: Var(name, SArr(SInt, e.elemSort(u.Elem()))), N: Int(u.Len())}
	case *types.Map:
		return &MapV{Nil: Var(name+"$nil", SBool), Obj: e.storeObject(name+"$map", t, true, "map"), K: u.Key(), V: u.Elem()}
	case *types.Chan:
		return &ChanV{Nil: Var(name+"$nil", SBool), Obj: e.storeObject(name+"$chan", t, true, "chan"), Elem: u.Elem()}
	case *types.Interface:
		// the identity code 0 is the nil value (that is how it is stored in
		// composite values and read back)
		if facts != nil {
			*facts = append(*facts, Eq(Var(name+"$nil", SBool), Eq(Var(name+"$id", SInt), Int(0))))
		}
		return &IfaceV{Nil: Var(name+"$nil", SBool), Opaque: Var(name+"$id", SInt), Typ: t}
	case *types.Signature:
		if facts != nil {
			*facts = append(*facts, Eq(Var(name+"$nil", SBool), Eq(Var(name+"$id", SInt), Int(0))))
		}
		return &FuncV{Nil: Var(name+"$nil", SBool), Opaque: Var(name+"$id", SInt), Sig: u}
	case *types.Tuple:
		tv := &TupleV{}
		for i := 0; i < u.Len(); i++ {
			tv.E = append(tv.E, e.freshVal(u.At(i).Type(), fmt.Sprintf("%s#%d", name, i), facts))
		}
		return tv
	}
	return &OpaqueV{T: Var(name, SInt), Typ: t}
}

// freshStore creates the symbolic initial content of a lazy object.
func (e *Engine) freshStore(o *Object, facts *[]*Term) Val {
	switch o.kind {
	case "arr":
		u := under(o.typ).(*types.Array)
		if isByteType(u.Elem()) {
			return &ArrV{Elem: u.Elem(), IsStr: true, T: Var(o.name, SString), N: nil}
		}
		return &ArrV{Elem: u.Elem(), T: Var(o.name, SArr(SInt, e.elemSort(u.Elem()))), N: nil}
	case "map":
		u := under(o.typ).(*types.Map)
		ks := e.elemSort(u.Key())
		ln := Var(o.name+".len", SInt)
		*facts = append(*facts, Ge(ln, Int(0)))
		return &MapStore{Dom: Var(o.name+".dom", SArr(ks, SBool)), Val: Var(o.name+".val", SArr(ks, e.elemSort(u.Elem()))), Len: ln}
	case "chan":
		cp := Var(o.name+".cap", SInt)
		*facts = append(*facts, Ge(cp, Int(0)))
		ln := Var(o.name+".len", SInt)
		*facts = append(*facts, Ge(ln, Int(0)), Le(ln, cp))
		return &ChanStore{Cap: cp, Closed: Var(o.name+".closed", SBool), SentCnt: Int(0), RecvCnt: Int(0), Held: Int(0), Sent: Str(""), Len: ln, LastCount: Var(o.name+".lastCount", SInt)}
	}
	return e.freshVal(o.typ, o.name, facts)
}

func (e *Engine) zeroStore(o *Object) Val {
	switch o.kind {
	case "map":
		u := under(o.typ).(*types.Map)
		ks := e.elemSort(u.Key())
		return &MapStore{Dom: ConstArr(SArr(ks, SBool), TFalse), Val: ConstArr(SArr(ks, e.elemSort(u.Elem())), e.zeroTerm(u.Elem())), Len: Int(0)}
	case "chan":
		return &ChanStore{Cap: Int(0), Closed: TFalse, SentCnt: Int(0), RecvCnt: Int(0), Held: Int(0), Sent: Str(""), Len: Int(0), LastCount: Int(0)}
	case "arr":
		u := under(o.typ).(*types.Array)
		if isByteType(u.Elem()) {
			return &ArrV{Elem: u.Elem(), IsStr: true, T: Str("")}
		}
		return &ArrV{Elem: u.Elem(), T: ConstArr(SArr(SInt, e.elemSort(u.Elem())), e.zeroTerm(u.Elem()))}
	}
	return e.zeroVal(o.typ, o.name)
}

// load returns the current content of object o in state s.
func (e *Engine) objVal(s *State, o *Object) Val {
	if v, ok := s.heap[o.id]; ok {
		return v
	}
	var v Val
	if o.init != nil {
		v = o.init
	} else if o.lazy {
		var facts []*Term
		v = e.freshStore(o, &facts)
		for _, f := range facts {
			s.assume(f)
		}
	} else {
		v = e.zeroStore(o)
	}
	s.heap[o.id] = v
	e.noteOwners(o, nil, v, 0)
	return v
}

// noteOwners records which struct location holds each map / channel / slice
// reference, so that invariants of the owner can follow writes to the storage.
func (e *Engine) noteOwners(o *Object, fpath []int, v Val, depth int) {
	if depth > 4 {
		return
	}
	switch t := v.(type) {
	case *StructV:
		for i, f := range t.F {
			e.noteOwners(o, append(append([]int(nil), fpath...), i), f, depth+1)
		}
	case *MapV:
		if t.Obj != nil {
			e.owner[t.Obj.id] = ownerRec(o, fpath)
		}
	case *ChanV:
		if t.Obj != nil {
			e.owner[t.Obj.id] = ownerRec(o, fpath)
		}
	case *SliceV:
		if t.Obj != nil {
			e.owner[t.Obj.id] = ownerRec(o, fpath)
		}
	}
}

// ---- conversion between register values and elemSort terms ----

func (e *Engine) toTerm(s *State, v Val, t types.Type) *Term {
	switch x := v.(type) {
	case *Term:
		want := e.elemSort(t)
		if x.S.Eq(want) {
			return x
		}
		if x.S == SInt && want == SReal {
			return ToReal(x)
		}
		return x
	case *StructV:
		u, ok := under(t).(*types.Struct)
		if !ok {
			return Int(0)
		}
		d := e.structDT(t, u)
		var args []*Term
		for i := 0; i < u.NumFields(); i++ {
			args = append(args, e.toTerm(s, x.F[i], u.Field(i).Type()))
		}
		return d.Mk(args...)
	case *SliceV:
		if isByteType(x.Elem) {
			return e.sliceBytes(s, x)
		}
		d := e.sliceDT(x.Elem)
		if x.Obj == nil {
			return d.Mk(Int(0), ConstArr(d.Sorts[1], e.zeroTerm(x.Elem)))
		}
		av := e.objVal(s, x.Obj).(*ArrV)
		arr := av.T
		if !(x.Off.Op == "int" && x.Off.I.Sign() == 0) {
			// shifted view: introduce a fresh array constrained pointwise
			e.nextObj++
			na := Var(fmt.Sprintf("view%d", e.nextObj), arr.S)
			i := Var("i!v", SInt)
			s.assume(Forall([]*Term{i}, Eq(Select(na, i), Select(arr, Add(i, x.Off)))))
			arr = na
		}
		return d.Mk(x.Len, arr)
	case *ArrV:
		return x.T
	case *PtrV:
		if x.Obj == nil {
			return Int(0)
		}
		return Ite(x.Nil, Int(0), Int(int64(x.Obj.id)))
	case *MapV:
		if x.Obj == nil {
			return Int(0)
		}
		return Ite(x.Nil, Int(0), Int(int64(x.Obj.id)))
	case *ChanV:
		if x.Obj == nil {
			return Int(0)
		}
		return Ite(x.Nil, Int(0), Int(int64(x.Obj.id)))
	case *IfaceV:
		if x.Opaque != nil {
			return x.Opaque
		}
		e.nextObj++
		return Int(int64(1000000 + e.nextObj))
	case *FuncV:
		if x.Opaque != nil {
			return x.Opaque
		}
		// a known function without bindings keeps one code wherever it is stored
		if fn, ok := x.Fn.(*ssa.Function); ok && len(x.Bind) == 0 {
			e.fnMu.Lock()
			if e.fnCodes == nil {
				e.fnCodes = map[*ssa.Function]int64{}
			}
			c, ok := e.fnCodes[fn]
			if !ok {
				c = int64(2000000 + len(e.fnCodes))
				e.fnCodes[fn] = c
			}
			e.fnMu.Unlock()
			return Int(c)
		}
		e.nextObj++
		return Int(int64(1000000 + e.nextObj))
	case *OpaqueV:
		return x.T
	case *AbsV:
		return Int(0)
	}
	panic(fmt.Sprintf("toTerm: unsupported %T for %s", v, typeName(t)))
}

// fromTerm turns an elemSort-encoded term back into a register value.
func (e *Engine) fromTerm(s *State, tm *Term, t types.Type, name string) Val {
	switch u := under(t).(type) {
	case *types.Basic:
		if u.Kind() == types.UnsafePointer {
			return &OpaqueV{T: tm, Typ: t}
		}
		if isIntType(t) {
			lo, hi := intRange(t)
			if lo != nil && tm.Op != "int" {
				s.assume(Ge(tm, lo))
			}
			if hi != nil && tm.Op != "int" {
				s.assume(Le(tm, hi))
			}
		}
		return tm
	case *types.Struct:
		if _, ok := abstractTypes[qualifiedTypeName(t)]; ok {
			var facts []*Term
			return e.freshVal(t, name, &facts)
		}
		d := e.structDT(t, u)
		sv := &StructV{Typ: t}
		for i := 0; i < u.NumFields(); i++ {
			sv.F = append(sv.F, e.fromTerm(s, d.Sel(i, tm), u.Field(i).Type(), name+"."+u.Field(i).Name()))
		}
		if e.onFreshStruct != nil {
			var facts []*Term
			e.onFreshStruct(t, sv, &facts)
			for _, f := range facts {
				s.assume(f)
			}
		}
		return sv
	case *types.Slice:
		if isByteType(u.Elem()) {
			o := e.storeObject(name+"$arr", types.NewArray(u.Elem(), 0), false, "arr")
			o.init = nil
			s.heap[o.id] = &ArrV{Elem: u.Elem(), IsStr: true, T: tm}
			return &SliceV{Nil: Var(name+"$nil", SBool), Obj: o, Off: Int(0), Len: StrLen(tm), Cap: StrLen(tm), Elem: u.Elem()}
		}
		d := e.sliceDT(u.Elem())
		o := e.storeObject(name+"$arr", types.NewArray(u.Elem(), 0), false, "arr")
		s.heap[o.id] = &ArrV{Elem: u.Elem(), T: d.Sel(1, tm)}
		ln := d.Sel(0, tm)
		if ln.Op != "int" {
			s.assume(Ge(ln, Int(0)))
		}
		nl := Var(name+"$nil", SBool)
		s.assume(Implies(nl, Eq(ln, Int(0))))
		return &SliceV{Nil: nl, Obj: o, Off: Int(0), Len: ln, Cap: ln, Elem: u.Elem()}
	case *types.Array:
		if isByteType(u.Elem()) {
			return &ArrV{Elem: u.Elem(), IsStr: true, T: tm, N: Int(u.Len())}
		}
		return &ArrV{Elem: u.Elem(), T: tm, N: Int(u.Len())}
	case *types.Pointer:
		if tm.Op == "int" {
			if tm.I.Sign() == 0 {
				return &PtrV{Nil: TTrue, Elem: u.Elem()}
			}
			for _, o := range e.objByName {
				if int64(o.id) == tm.I.Int64() {
					return &PtrV{Nil: TFalse, Obj: o, Elem: u.Elem()}
				}
			}
		}
		if nilT, o, ok := e.decodeRef(tm); ok {
			if o == nil {
				return &PtrV{Nil: TTrue, Elem: u.Elem()}
			}
			return &PtrV{Nil: nilT, Obj: o, Elem: u.Elem()}
		}
		return &PtrV{Nil: Eq(tm, Int(0)), Obj: e.namedObject("*"+name, u.Elem(), true), Elem: u.Elem()}
	case *types.Map:
		if tm.Op == "int" && tm.I.Sign() != 0 {
			for _, o := range e.objByName {
				if int64(o.id) == tm.I.Int64() {
					return &MapV{Nil: TFalse, Obj: o, K: u.Key(), V: u.Elem()}
				}
			}
		}
		return &MapV{Nil: Eq(tm, Int(0)), Obj: e.storeObject(name+"$map", t, true, "map"), K: u.Key(), V: u.Elem()}
	case *types.Chan:
		if tm.Op == "int" && tm.I.Sign() != 0 {
			for _, o := range e.objByName {
				if int64(o.id) == tm.I.Int64() {
					return &ChanV{Nil: TFalse, Obj: o, Elem: u.Elem()}
				}
			}
		}
		return &ChanV{Nil: Eq(tm, Int(0)), Obj: e.storeObject(name+"$chan", t, true, "chan"), Elem: u.Elem()}
	case *types.Interface:
		if tm.Op == "int" && tm.I.IsInt64() {
			if iv, ok := e.ifaces[tm.I.Int64()]; ok {
				return iv
			}
		}
		return &IfaceV{Nil: Eq(tm, Int(0)), Opaque: tm, Typ: t}
	case *types.Signature:
		return &FuncV{Nil: Eq(tm, Int(0)), Opaque: tm, Sig: u}
	}
	return &OpaqueV{T: tm, Typ: t}
}

// sliceBytes returns the String term holding the bytes of a []byte slice.
func (e *Engine) sliceBytes(s *State, x *SliceV) *Term {
	if x.Obj == nil {
		return Str("")
	}
	av := e.objVal(s, x.Obj).(*ArrV)
	if !av.IsStr {
		panic("sliceBytes on non-byte backing")
	}
	return Substr(av.T, x.Off, x.Len)
}

func sortedKeys(m map[string]bool) []string {
	var ks []string
	for k := range m {
		ks = append(ks, k)
	}
	sort.Strings(ks)
	return ks
}

func ownerRec(o *Object, fpath []int) writeRec {
	if len(fpath) == 0 {
		return writeRec{obj: o}
	}
	return writeRec{obj: o, fpath: fpath[:len(fpath)-1]}
}

// decodeRef reads a reference code built from 0 (nil), object ids and ite's
// over them that mention a single object: the condition under which it is
// nil, and the object (nil object: the code is always 0).
func (e *Engine) decodeRef(tm *Term) (*Term, *Object, bool) {
	switch tm.Op {
	case "int":
		if tm.I.Sign() == 0 {
			return TTrue, nil, true
		}
		if !tm.I.IsInt64() {
			return nil, nil, false
		}
		for _, o := range e.objByName {
			if int64(o.id) == tm.I.Int64() {
				return TFalse, o, true
			}
		}
		return nil, nil, false
	case "ite":
		n1, o1, ok1 := e.decodeRef(tm.Args[1])
		n2, o2, ok2 := e.decodeRef(tm.Args[2])
		if !ok1 || !ok2 {
			return nil, nil, false
		}
		if o1 != nil && o2 != nil && o1 != o2 {
			return nil, nil, false
		}
		o := o1
		if o == nil {
			o = o2
		}
		return Ite(tm.Args[0], n1, n2), o, true
	}
	return nil, nil, false
}
