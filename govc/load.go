package main

import (
	"fmt"
	"go/ast"
	"go/token"
	"go/types"
	"os"
	"path/filepath"
	"sort"
	"strings"

	"golang.org/x/tools/go/packages"
	"golang.org/x/tools/go/ssa"
	"golang.org/x/tools/go/ssa/ssautil"
)

const modPath = "github.com/mimecast/dtail"

type Program struct {
	Repo     string
	Fset     *token.FileSet
	Pkgs     []*packages.Package
	Prog     *ssa.Program
	SSA      map[string]*ssa.Package // import path -> package
	PkgOf    map[string]*packages.Package
	Funcs    map[string]*ssa.Function // "pkgpath::key" -> function
	Specs    map[string]*PkgSpec      // import path -> spec
	Dangling []string                 // contracts whose function no longer exists
	LoadMs   int64
}

func shortPkg(p string) string {
	return strings.TrimPrefix(strings.TrimPrefix(p, modPath+"/internal/"), modPath+"/")
}

func funcKey(fn *ssa.Function) string {
	if fn.Pkg == nil {
		return fn.String()
	}
	return fn.RelString(fn.Pkg.Pkg)
}

func fullKey(fn *ssa.Function) string {
	pk := ""
	if fn.Pkg != nil {
		pk = fn.Pkg.Pkg.Path()
	} else if fn.Parent() != nil && fn.Parent().Pkg != nil {
		pk = fn.Parent().Pkg.Pkg.Path()
	}
	return pk + "::" + funcKey(fn)
}

// obligName prefix: short package + function key
func fnDisplay(fn *ssa.Function) string {
	pk := ""
	if fn.Pkg != nil {
		pk = shortPkg(fn.Pkg.Pkg.Path())
	}
	return pk + "." + funcKey(fn)
}

func loadProgram(repo string) (*Program, error) {
	cfg := &packages.Config{
		Mode:       packages.LoadAllSyntax,
		Dir:        repo,
		BuildFlags: []string{"-tags=verif"},
		Env:        append(os.Environ(), "GOFLAGS=-mod=mod", "GOPROXY=off", "GOSUMDB=off", "GOTOOLCHAIN=local"),
	}
	pkgs, err := packages.Load(cfg, "./...")
	if err != nil {
		return nil, err
	}
	var errs []string
	packages.Visit(pkgs, nil, func(p *packages.Package) {
		if strings.HasPrefix(p.PkgPath, modPath) {
			for _, e := range p.Errors {
				errs = append(errs, e.Error())
			}
		}
	})
	if len(errs) > 0 {
		return nil, fmt.Errorf("package errors:\n%s", strings.Join(errs, "\n"))
	}
	prog, spkgs := ssautil.AllPackages(pkgs, ssa.GlobalDebug|ssa.InstantiateGenerics)
	prog.Build()
	P := &Program{Repo: repo, Prog: prog, SSA: map[string]*ssa.Package{}, PkgOf: map[string]*packages.Package{}, Funcs: map[string]*ssa.Function{}, Specs: map[string]*PkgSpec{}}
	if len(pkgs) > 0 {
		P.Fset = pkgs[0].Fset
	}
	P.Pkgs = pkgs
	for i, sp := range spkgs {
		if sp == nil {
			continue
		}
		P.SSA[sp.Pkg.Path()] = sp
		P.PkgOf[sp.Pkg.Path()] = pkgs[i]
	}
	// also dependencies (for library function lookup)
	for _, sp := range prog.AllPackages() {
		if _, ok := P.SSA[sp.Pkg.Path()]; !ok {
			P.SSA[sp.Pkg.Path()] = sp
		}
	}
	var addFn func(fn *ssa.Function)
	addFn = func(fn *ssa.Function) {
		if fn == nil {
			return
		}
		P.Funcs[fullKey(fn)] = fn
		for _, a := range fn.AnonFuncs {
			addFn(a)
		}
	}
	for path, sp := range P.SSA {
		if !strings.HasPrefix(path, modPath) {
			continue
		}
		for _, m := range sp.Members {
			switch m := m.(type) {
			case *ssa.Function:
				addFn(m)
			case *ssa.Type:
				ms := prog.MethodSets.MethodSet(m.Type())
				for i := 0; i < ms.Len(); i++ {
					addFn(prog.MethodValue(ms.At(i)))
				}
				pt := types.NewPointer(m.Type())
				ms = prog.MethodSets.MethodSet(pt)
				for i := 0; i < ms.Len(); i++ {
					addFn(prog.MethodValue(ms.At(i)))
				}
			}
		}
	}
	// contract files
	for path, sp := range P.SSA {
		if !strings.HasPrefix(path, modPath) {
			continue
		}
		pp := P.PkgOf[path]
		if pp == nil || len(pp.GoFiles) == 0 {
			continue
		}
		dir := filepath.Dir(pp.GoFiles[0])
		cf := filepath.Join(dir, "zz_contracts_verif.go")
		if _, err := os.Stat(cf); err != nil {
			continue
		}
		ps, err := loadPkgSpec(cf, path)
		if err != nil {
			return nil, err
		}
		P.Specs[path] = ps
		_ = sp
		for key, c := range ps.Contracts {
			if c.IsIface {
				continue
			}
			if _, ok := P.Funcs[path+"::"+key]; !ok {
				// The function was renamed or removed. Not fatal here: a property that
				// lists the function reports it (its function cannot be found); callers
				// of the renamed function see a callee without contract.
				P.Dangling = append(P.Dangling, fmt.Sprintf("%s:%d: contract for unknown function %q (similar: %s)", c.File, c.Line, key, strings.Join(P.similar(path, key), ", ")))
				delete(ps.Contracts, key)
			}
		}
	}
	return P, nil
}

func (P *Program) similar(pkg, key string) []string {
	var out []string
	base := key
	if i := strings.LastIndex(key, "."); i >= 0 {
		base = key[i+1:]
	}
	base = strings.TrimRight(base, "$0123456789")
	for k := range P.Funcs {
		if strings.HasPrefix(k, pkg+"::") && strings.Contains(k, base) {
			out = append(out, strings.TrimPrefix(k, pkg+"::"))
		}
	}
	sort.Strings(out)
	return out
}

func (P *Program) contractFor(fn *ssa.Function) *Contract {
	pk := ""
	if fn.Pkg != nil {
		pk = fn.Pkg.Pkg.Path()
	} else if fn.Parent() != nil {
		p := fn.Parent()
		for p.Parent() != nil {
			p = p.Parent()
		}
		if p.Pkg != nil {
			pk = p.Pkg.Pkg.Path()
		}
	}
	ps := P.Specs[pk]
	if ps == nil {
		return nil
	}
	return ps.Contracts[funcKey(fn)]
}

func (P *Program) ifaceContract(pkgPath, key string) *Contract {
	ps := P.Specs[pkgPath]
	if ps == nil {
		return nil
	}
	c := ps.Contracts[key]
	if c != nil && c.IsIface {
		return c
	}
	return nil
}

func (P *Program) lookupFunc(pkgPath, key string) *ssa.Function {
	return P.Funcs[pkgPath+"::"+key]
}

// isRepoFunc reports whether fn belongs to the module under verification.
func isRepoFunc(fn *ssa.Function) bool {
	for fn.Parent() != nil {
		fn = fn.Parent()
	}
	return fn.Pkg != nil && strings.HasPrefix(fn.Pkg.Pkg.Path(), modPath)
}

// enclosing source text for a position, used in obligation labels
func (P *Program) fileOf(pos token.Pos) *ast.File {
	if !pos.IsValid() {
		return nil
	}
	for _, p := range P.PkgOf {
		for _, f := range p.Syntax {
			if f.Pos() <= pos && pos <= f.End() {
				return f
			}
		}
	}
	return nil
}

// typeInvariants returns the declared invariants of fn's receiver type.
func (P *Program) typeInvariants(fn *ssa.Function) []*Clause {
	if c := P.contractFor(fn); c != nil && c.Constructor {
		return nil
	}
	recv := fn.Signature.Recv()
	if recv == nil || fn.Pkg == nil {
		return nil
	}
	t := recv.Type()
	if p, ok := t.(*types.Pointer); ok {
		t = p.Elem()
	}
	nt, ok := t.(*types.Named)
	if !ok {
		return nil
	}
	ps := P.Specs[fn.Pkg.Pkg.Path()]
	if ps == nil {
		return nil
	}
	return ps.TypeInvs[nt.Obj().Name()]
}

// invariantsOfType returns the declared invariants of a named struct type.
func (P *Program) invariantsOfType(t types.Type) []*Clause {
	nt, ok := t.(*types.Named)
	if !ok || nt.Obj().Pkg() == nil {
		return nil
	}
	ps := P.Specs[nt.Obj().Pkg().Path()]
	if ps == nil {
		return nil
	}
	return ps.TypeInvs[nt.Obj().Name()]
}

func (P *Program) chanInvsOfType(t types.Type) []*ChanInvDecl {
	nt, ok := t.(*types.Named)
	if !ok || nt.Obj().Pkg() == nil {
		return nil
	}
	ps := P.Specs[nt.Obj().Pkg().Path()]
	if ps == nil {
		return nil
	}
	return ps.TypeChanInvs[nt.Obj().Name()]
}

// chanInvByLabel finds a declared channel invariant by its label.
func (P *Program) chanInvByLabel(label string) *ChanInvDecl {
	var pkgs []string
	for p := range P.Specs {
		pkgs = append(pkgs, p)
	}
	sort.Strings(pkgs)
	for _, p := range pkgs {
		ps := P.Specs[p]
		var tns []string
		for tn := range ps.TypeChanInvs {
			tns = append(tns, tn)
		}
		sort.Strings(tns)
		for _, tn := range tns {
			for _, d := range ps.TypeChanInvs[tn] {
				if d.Pred.Label == label {
					return d
				}
			}
		}
		var keys []string
		for k := range ps.Contracts {
			keys = append(keys, k)
		}
		sort.Strings(keys)
		for _, k := range keys {
			for _, d := range ps.Contracts[k].ChanInvs {
				if d.Pred.Label == label {
					return d
				}
			}
		}
	}
	return nil
}

func (P *Program) semaphoresOfType(t types.Type) []string {
	nt, ok := t.(*types.Named)
	if !ok || nt.Obj().Pkg() == nil {
		return nil
	}
	ps := P.Specs[nt.Obj().Pkg().Path()]
	if ps == nil {
		return nil
	}
	return ps.TypeSemaphores[nt.Obj().Name()]
}
