package main

// Contract files: comment-only Go files `zz_contracts_verif.go` behind the
// build tag `verif`, one per package directory in /repo.
//
//   //@ func (*readFile).handleReadByte
//   //@   requires [msg-nonnil] message != nil
//   //@   ensures  [label] expr
//   //@   assigns  f.warnedAboutLongLine, message.content
//   //@   loop 1 invariant [label] expr
//   //@   loop 1 assigns a, b
//   //@   inline | trusted | noreturn | pure | skip
//   //@ global-invariant [label] expr
//   //@ iface Parser.MakeFields  (followed by clauses: interface method contract)
//   //@ lemma name: (free) vars ... see lemmas.go

import (
	"bufio"
	"fmt"
	"go/ast"
	"go/parser"
	"os"
	"path/filepath"
	"regexp"
	"strconv"
	"strings"
)

type Clause struct {
	Label string
	Src   string
	Expr  ast.Expr
	File  string
	Line  int
}

// ChanInvDecl: every element sent on the channel satisfies Pred (over `elem`);
// receivers may assume it. Open: the channel is never closed.
type ChanInvDecl struct {
	ChanSrc  string
	ChanExpr ast.Expr
	Pred     *Clause
	Open     bool
	Seq      bool // used by one goroutine only: len(ch) is exact, select cases are enabled by fill level
	Pkg      string
}

func (d *ChanInvDecl) sig() string {
	o := ""
	if d.Open {
		o = "open:"
	}
	if d.Seq {
		o += "seq:"
	}
	return o + strings.Join(strings.Fields(d.Pred.Src), " ")
}

func (d *ChanInvDecl) predSig() string { return strings.Join(strings.Fields(d.Pred.Src), " ") }

// satisfies: a channel carrying `d` meets a callee's need `need`.
func (d *ChanInvDecl) satisfies(need *ChanInvDecl) bool {
	return d.predSig() == need.predSig() && (d.Open || !need.Open) && (d.Seq || !need.Seq)
}

func parseChanInv(rest, file string, line int, pkg string) (*ChanInvDecl, error) {
	// <chan-expr> [label] [open:] pred
	i := strings.Index(rest, "[")
	if i < 0 {
		return nil, fmt.Errorf("%s:%d: chaninv needs a [label]", file, line)
	}
	d := &ChanInvDecl{ChanSrc: strings.TrimSpace(rest[:i]), Pkg: pkg}
	e, err := parser.ParseExpr(d.ChanSrc)
	if err != nil {
		return nil, fmt.Errorf("%s:%d: chaninv channel %q: %v", file, line, d.ChanSrc, err)
	}
	d.ChanExpr = e
	m := reLabel.FindStringSubmatch(strings.TrimSpace(rest[i:]))
	if m == nil {
		return nil, fmt.Errorf("%s:%d: bad chaninv", file, line)
	}
	pred := strings.TrimSpace(m[2])
	for {
		if strings.HasPrefix(pred, "open:") {
			d.Open = true
			pred = strings.TrimSpace(strings.TrimPrefix(pred, "open:"))
			continue
		}
		if strings.HasPrefix(pred, "seq:") {
			d.Seq = true
			pred = strings.TrimSpace(strings.TrimPrefix(pred, "seq:"))
			continue
		}
		break
	}
	if pred == "" {
		pred = "true"
	}
	c, err := parseClause("["+m[1]+"] "+pred, file, line)
	if err != nil {
		return nil, err
	}
	d.Pred = c
	return d, nil
}

// OnSend: for sends on the channel designated by ChanExpr inside this function:
// Assert (label + predicate over elem and ghost state) is checked before the
// send; Effect (g_x == expr over elem) is a ghost assignment performed after it.
type OnSend struct {
	ChanSrc  string
	ChanExpr ast.Expr
	Assert   *Clause
	Effect   *Clause
	Recv     bool // on-recv: applies to receives instead of sends
}

// AtCall: an assertion over the caller's variables checked immediately
// before every call whose callee name contains Callee.
type BindClause struct {
	Name, Callee, Site string
}

type AtCall struct {
	Callee string // substring of the callee name; "name@text" also requires text in the call's source snippet
	Site   string
	Pred   *Clause
	Effect *Clause // at-call <callee> effect g_x == expr : ghost update when the call (or go) happens
}

type LoopSpec struct {
	Invariants []*Clause
	Steps      []*Clause // relate the state at the start of an iteration (prev(e)) to the state at its end
	Assigns    []string
	HasAssigns bool
}

type Contract struct {
	Pkg           string // package import path
	Key           string // function key as in ssa RelString
	Requires      []*Clause
	Ensures       []*Clause
	Assigns       []string
	HasAssigns    bool
	Loops         map[int]*LoopSpec
	Inline        bool
	Trusted       bool
	NoReturn      bool
	Pure          bool
	Unreachable   bool // never called: a static call is an obligation `false`; the body is not verified
	Constructor   bool // establishes the receiver's type invariant: not assumed at entry, not required at call sites
	Skip          bool // never verify body (outside subset); requires Trusted semantics at call sites
	Ghost         []string
	Asserts       map[string][]*Clause // keyed by anchor (unused for now)
	Effects       []*Clause            // ghost effects: "x = expr" applied at call sites and checked at return
	File          string
	Line          int
	IsIface       bool
	Lets          []*Clause // let name = expr (evaluated at entry)
	ChanInvs      []*ChanInvDecl
	NeverCalls    []string      // deny-list: none of these is called by the function, its closures or (transitively) its same-package static callees
	NoBlockingOps bool          // no channel send / receive / blocking select in the function, its closures and its same-package callees
	CallsOnly     []string      // frame on callees: the function may only call functions whose name contains one of these
	CallersOnly   []string      // frame on callers: the function may only be called from these functions
	GhostInits    []*Clause     // ghost-init g_x == expr : the activation starts its own ghost variables
	OnSends       []*OnSend     // on-send / at-send clauses
	AtCalls       []*AtCall     // assertions checked at call sites inside the function
	Binds         []*BindClause // names for the results of calls inside the function
	Semaphores    []string      // channel expressions (params / receiver fields) used as counting semaphores
	Notes         []string
}

// SpecDefine is a non-recursive spec function written in the contract file.
type SpecDefine struct {
	Name   string
	Params []string
	Body   *Clause
}

type PkgSpec struct {
	Pkg            string
	Dir            string
	Contracts      map[string]*Contract
	GlobalInvs     []*Clause
	FsWriters      []string                  // fs-writers-only: the only functions of the package that may create, replace, rename or remove files
	Defines        map[string]*SpecDefine    // package-level spec functions: define name(a, b) == expr
	TypeInvs       map[string][]*Clause      // type name -> invariants over `self`
	TypeChanInvs   map[string][]*ChanInvDecl // type name -> channel invariants of fields (ChanSrc = field name)
	TypeSemaphores map[string][]string       // type name -> fields holding counting-semaphore channels
	File           string
}

var reFuncHdr = regexp.MustCompile(`^(func|iface)\s+(.+)$`)
var reLabel = regexp.MustCompile(`^\[([^\]]+)\]\s*(.*)$`)

func splitTopLevelCommas(s string) []string {
	var out []string
	depth := 0
	start := 0
	for i, c := range s {
		switch c {
		case '(', '[', '{':
			depth++
		case ')', ']', '}':
			depth--
		case ',':
			if depth == 0 {
				out = append(out, strings.TrimSpace(s[start:i]))
				start = i + 1
			}
		}
	}
	if t := strings.TrimSpace(s[start:]); t != "" {
		out = append(out, t)
	}
	return out
}

func parseClause(text, file string, line int) (*Clause, error) {
	c := &Clause{File: file, Line: line}
	text = strings.TrimSpace(text)
	if m := reLabel.FindStringSubmatch(text); m != nil {
		c.Label = m[1]
		text = m[2]
	}
	c.Src = text
	e, err := parser.ParseExpr(text)
	if err != nil {
		return nil, fmt.Errorf("%s:%d: cannot parse %q: %v", file, line, text, err)
	}
	c.Expr = e
	return c, nil
}

// loadPkgSpec parses one contract file.
func loadPkgSpec(path, pkgPath string) (*PkgSpec, error) {
	f, err := os.Open(path)
	if err != nil {
		return nil, err
	}
	defer f.Close()
	ps := &PkgSpec{Pkg: pkgPath, Dir: filepath.Dir(path), Contracts: map[string]*Contract{}, TypeInvs: map[string][]*Clause{}, TypeChanInvs: map[string][]*ChanInvDecl{}, TypeSemaphores: map[string][]string{}, File: path}
	sc := bufio.NewScanner(f)
	sc.Buffer(make([]byte, 1<<20), 1<<20)
	var cur *Contract
	var lines []struct {
		text string
		n    int
	}
	n := 0
	for sc.Scan() {
		n++
		l := sc.Text()
		t := strings.TrimSpace(l)
		if !strings.HasPrefix(t, "//@") {
			continue
		}
		t = strings.TrimSpace(strings.TrimPrefix(t, "//@"))
		if t == "" || strings.HasPrefix(t, "#") {
			continue
		}
		if strings.HasPrefix(t, "..") && len(lines) > 0 { // continuation
			lines[len(lines)-1].text += " " + strings.TrimSpace(strings.TrimPrefix(t, ".."))
			continue
		}
		lines = append(lines, struct {
			text string
			n    int
		}{t, n})
	}
	for _, ln := range lines {
		t := ln.text
		if m := reFuncHdr.FindStringSubmatch(t); m != nil {
			cur = &Contract{Pkg: pkgPath, Key: strings.TrimSpace(m[2]), Loops: map[int]*LoopSpec{}, File: path, Line: ln.n, IsIface: m[1] == "iface"}
			if _, dup := ps.Contracts[cur.Key]; dup {
				return nil, fmt.Errorf("%s:%d: duplicate contract for %s", path, ln.n, cur.Key)
			}
			ps.Contracts[cur.Key] = cur
			continue
		}
		word, rest := t, ""
		if i := strings.IndexAny(t, " \t"); i >= 0 {
			word, rest = t[:i], strings.TrimSpace(t[i+1:])
		}
		if word == "define" {
			// define name(p1, p2) == expr
			i := strings.Index(rest, "==")
			lp := strings.Index(rest, "(")
			rp := strings.Index(rest, ")")
			if i < 0 || lp < 0 || rp < lp || rp > i {
				return nil, fmt.Errorf("%s:%d: bad define (define name(params) == expr)", path, ln.n)
			}
			d := &SpecDefine{Name: strings.TrimSpace(rest[:lp])}
			for _, p := range strings.Split(rest[lp+1:rp], ",") {
				if p = strings.TrimSpace(p); p != "" {
					d.Params = append(d.Params, p)
				}
			}
			c, err := parseClause(strings.TrimSpace(rest[i+2:]), path, ln.n)
			if err != nil {
				return nil, err
			}
			d.Body = c
			if ps.Defines == nil {
				ps.Defines = map[string]*SpecDefine{}
			}
			ps.Defines[d.Name] = d
			cur = nil
			continue
		}
		if word == "fs-writers-only" {
			if rest != "nothing" {
				ps.FsWriters = append(ps.FsWriters, splitTopLevelCommas(rest)...)
			}
			cur = nil
			continue
		}
		if word == "global-invariant" {
			c, err := parseClause(rest, path, ln.n)
			if err != nil {
				return nil, err
			}
			ps.GlobalInvs = append(ps.GlobalInvs, c)
			continue
		}
		if word == "type" {
			// type T invariant [label] expr
			parts := strings.SplitN(rest, " ", 3)
			if len(parts) == 3 && parts[1] == "semaphore" {
				ps.TypeSemaphores[parts[0]] = append(ps.TypeSemaphores[parts[0]], strings.TrimSpace(parts[2]))
				cur = nil
				continue
			}
			if len(parts) == 3 && parts[1] == "chaninv" {
				d, err := parseChanInv(parts[2], path, ln.n, pkgPath)
				if err != nil {
					return nil, err
				}
				ps.TypeChanInvs[parts[0]] = append(ps.TypeChanInvs[parts[0]], d)
				cur = nil
				continue
			}
			if len(parts) < 3 || parts[1] != "invariant" {
				return nil, fmt.Errorf("%s:%d: bad type invariant", path, ln.n)
			}
			c, err := parseClause(parts[2], path, ln.n)
			if err != nil {
				return nil, err
			}
			if c.Label == "" {
				c.Label = fmt.Sprintf("%s-%d", parts[0], len(ps.TypeInvs[parts[0]])+1)
			}
			ps.TypeInvs[parts[0]] = append(ps.TypeInvs[parts[0]], c)
			cur = nil
			continue
		}
		if cur == nil {
			return nil, fmt.Errorf("%s:%d: clause outside func: %s", path, ln.n, t)
		}
		switch word {
		case "requires", "ensures", "let", "effect":
			c, err := parseClause(rest, path, ln.n)
			if err != nil {
				return nil, err
			}
			switch word {
			case "requires":
				cur.Requires = append(cur.Requires, c)
			case "ensures":
				cur.Ensures = append(cur.Ensures, c)
			case "let":
				cur.Lets = append(cur.Lets, c)
			case "effect":
				cur.Effects = append(cur.Effects, c)
			}
		case "assigns":
			cur.HasAssigns = true
			if rest != "nothing" {
				cur.Assigns = append(cur.Assigns, splitTopLevelCommas(rest)...)
			}
		case "loop":
			parts := strings.SplitN(rest, " ", 3)
			if len(parts) < 3 {
				return nil, fmt.Errorf("%s:%d: bad loop clause", path, ln.n)
			}
			k, err := strconv.Atoi(parts[0])
			if err != nil {
				return nil, fmt.Errorf("%s:%d: bad loop ordinal", path, ln.n)
			}
			ls := cur.Loops[k]
			if ls == nil {
				ls = &LoopSpec{}
				cur.Loops[k] = ls
			}
			switch parts[1] {
			case "invariant":
				c, err := parseClause(parts[2], path, ln.n)
				if err != nil {
					return nil, err
				}
				ls.Invariants = append(ls.Invariants, c)
			case "step":
				// loop N step [label] pred: holds at the end of every iteration
				// that goes round again; prev(e) is e at the start of that iteration
				c, err := parseClause(parts[2], path, ln.n)
				if err != nil {
					return nil, err
				}
				ls.Steps = append(ls.Steps, c)
			case "assigns":
				ls.HasAssigns = true
				if parts[2] != "nothing" {
					ls.Assigns = append(ls.Assigns, splitTopLevelCommas(parts[2])...)
				}
			default:
				return nil, fmt.Errorf("%s:%d: unknown loop clause %s", path, ln.n, parts[1])
			}
		case "never-calls":
			cur.NeverCalls = append(cur.NeverCalls, splitTopLevelCommas(rest)...)
		case "no-blocking-ops":
			cur.NoBlockingOps = true
		case "calls-only":
			cur.CallsOnly = append(cur.CallsOnly, splitTopLevelCommas(rest)...)
		case "callers-only":
			cur.CallersOnly = append(cur.CallersOnly, splitTopLevelCommas(rest)...)
		case "ghost-init":
			c, err := parseClause(rest, path, ln.n)
			if err != nil {
				return nil, err
			}
			cur.GhostInits = append(cur.GhostInits, c)
		case "at-send", "on-send", "on-recv":
			// at-send <chan> [label] pred     |   on-send <chan> effect g_x == expr
			i := strings.IndexAny(rest, " \t")
			if i < 0 {
				return nil, fmt.Errorf("%s:%d: bad %s", path, ln.n, word)
			}
			os := &OnSend{ChanSrc: rest[:i]}
			ce, err := parser.ParseExpr(os.ChanSrc)
			if err != nil {
				return nil, fmt.Errorf("%s:%d: %s channel: %v", path, ln.n, word, err)
			}
			os.ChanExpr = ce
			body := strings.TrimSpace(rest[i+1:])
			if word == "on-send" || word == "on-recv" {
				body = strings.TrimSpace(strings.TrimPrefix(body, "effect"))
			}
			c, err := parseClause(body, path, ln.n)
			if err != nil {
				return nil, err
			}
			if word == "on-send" || word == "on-recv" {
				os.Effect = c
				os.Recv = word == "on-recv"
			} else {
				os.Assert = c
			}
			cur.OnSends = append(cur.OnSends, os)
		case "semaphore":
			cur.Semaphores = append(cur.Semaphores, rest)
		case "at-call":
			i := strings.IndexAny(rest, " \t")
			if i < 0 {
				return nil, fmt.Errorf("%s:%d: bad at-call", path, ln.n)
			}
			body := strings.TrimSpace(rest[i+1:])
			isEffect := strings.HasPrefix(body, "effect ")
			if isEffect {
				body = strings.TrimSpace(strings.TrimPrefix(body, "effect "))
			}
			c, err := parseClause(body, path, ln.n)
			if err != nil {
				return nil, err
			}
			ac := &AtCall{Callee: rest[:i], Pred: c}
			if isEffect {
				ac.Effect, ac.Pred = c, nil
			}
			if j := strings.Index(ac.Callee, "@"); j >= 0 {
				ac.Site = ac.Callee[j+1:]
				ac.Callee = ac.Callee[:j]
			}
			cur.AtCalls = append(cur.AtCalls, ac)
		case "bind":
			// bind <name> == <callee-substr>[@site-substr]: <name> stands for what
			// that call returned, in later at-call clauses, invariants and ensures
			parts := strings.Fields(rest)
			if len(parts) != 3 || parts[1] != "==" {
				return nil, fmt.Errorf("%s:%d: bad bind (bind <name> == <callee>[@site])", path, ln.n)
			}
			b := &BindClause{Name: parts[0], Callee: parts[2]}
			if j := strings.Index(b.Callee, "@"); j >= 0 {
				b.Site = b.Callee[j+1:]
				b.Callee = b.Callee[:j]
			}
			cur.Binds = append(cur.Binds, b)
		case "chaninv":
			d, err := parseChanInv(rest, path, ln.n, pkgPath)
			if err != nil {
				return nil, err
			}
			cur.ChanInvs = append(cur.ChanInvs, d)
		case "unreachable":
			cur.Unreachable = true
			cur.Skip = true
		case "constructor":
			cur.Constructor = true
		case "inline":
			cur.Inline = true
		case "trusted":
			cur.Trusted = true
		case "noreturn":
			cur.NoReturn = true
		case "pure":
			cur.Pure = true
			cur.HasAssigns = true
		case "skip":
			cur.Skip = true
		case "ghost":
			cur.Ghost = append(cur.Ghost, rest)
		case "note":
			cur.Notes = append(cur.Notes, rest)
		default:
			return nil, fmt.Errorf("%s:%d: unknown clause %q", path, ln.n, word)
		}
	}
	return ps, nil
}
