package main

// String abstraction. A query in which strings are only compared, stored in
// and read from arrays, chosen by ite and passed to uninterpreted functions
// uses nothing of the theory of strings but that String is an infinite set
// with equality. Replacing String by an uninterpreted sort keeps exactly the
// same satisfying assignments up to renaming of the values (literals become
// pairwise distinct constants; any finite model over the uninterpreted sort
// embeds into strings), and takes the string solver out of the way of the
// quantifier engine.

import (
	"fmt"
)

var sortStrU = SUninterp("StrU")

type strAbstractor struct {
	ok   bool
	lits map[string]*Term
	memo map[*Term]*Term
}

func sortHasString(s *Sort) bool {
	switch s.Name {
	case "String":
		return true
	case "Array":
		return sortHasString(s.Idx) || sortHasString(s.Elem)
	}
	return false
}

func sortIsBuiltin(s *Sort) bool {
	switch s.Name {
	case "Int", "Bool", "Real", "String":
		return true
	case "Array":
		return sortIsBuiltin(s.Idx) && sortIsBuiltin(s.Elem)
	}
	return false
}

func (a *strAbstractor) sort(s *Sort) *Sort {
	switch s.Name {
	case "String":
		return sortStrU
	case "Array":
		return SArr(a.sort(s.Idx), a.sort(s.Elem))
	}
	return s
}

func (a *strAbstractor) term(t *Term) *Term {
	if !a.ok {
		return t
	}
	if r, ok := a.memo[t]; ok {
		return r
	}
	if !sortIsBuiltin(t.S) {
		// datatypes may carry string fields: not abstracted
		a.ok = false
		return t
	}
	var r *Term
	switch t.Op {
	case "var":
		r = &Term{Op: "var", Name: t.Name, S: a.sort(t.S)}
	case "int", "bool", "real":
		r = t
	case "str":
		k := t.Str
		if l, ok := a.lits[k]; ok {
			r = l
		} else {
			r = &Term{Op: "var", Name: fmt.Sprintf("strlit!%x", k), S: sortStrU}
			a.lits[k] = r
		}
	case "=", "distinct", "ite", "select", "store", "uf", "constarr":
		n := *t
		n.S = a.sort(t.S)
		n.Args = make([]*Term, len(t.Args))
		for i, x := range t.Args {
			n.Args[i] = a.term(x)
		}
		r = &n
	case "forall", "exists":
		n := *t
		n.Bound = make([]*Term, len(t.Bound))
		for i, b := range t.Bound {
			n.Bound[i] = &Term{Op: "var", Name: b.Name, S: a.sort(b.S)}
		}
		n.Args = []*Term{a.term(t.Args[0])}
		r = &n
	default:
		// any other operator must not touch strings
		if sortHasString(t.S) {
			a.ok = false
			return t
		}
		n := *t
		n.Args = make([]*Term, len(t.Args))
		for i, x := range t.Args {
			if sortHasString(x.S) {
				a.ok = false
				return t
			}
			n.Args[i] = a.term(x)
		}
		r = &n
	}
	a.memo[t] = r
	return r
}

// abstractStrings returns the abstracted assertions, or ok=false when the
// query uses string operations (or no strings at all).
func abstractStrings(asserts []*Term, want []*Term) ([]*Term, []*Term, bool) {
	ds := newDeclSet()
	for _, t := range asserts {
		ds.walk(t, nil)
	}
	if !ds.strings || !ds.quant {
		return nil, nil, false
	}
	a := &strAbstractor{ok: true, lits: map[string]*Term{}, memo: map[*Term]*Term{}}
	var out []*Term
	for _, t := range asserts {
		out = append(out, a.term(t))
	}
	if !a.ok {
		return nil, nil, false
	}
	if len(a.lits) > 1 {
		var ls []*Term
		for _, l := range a.lits {
			ls = append(ls, l)
		}
		out = append(out, app("distinct", SBool, ls...))
	}
	var w []*Term
	for _, t := range want {
		if t.Op == "var" {
			w = append(w, &Term{Op: "var", Name: t.Name, S: a.sort(t.S)})
		}
	}
	return out, w, true
}
