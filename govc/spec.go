package main

// Evaluation of contract expressions (a subset of Go expressions plus spec
// functions) over a symbolic state.

import (
	"fmt"
	"go/ast"
	"go/constant"
	"go/parser"
	"go/token"
	"go/types"
	"math/big"
	"strconv"
	"strings"

	"golang.org/x/tools/go/ssa"
)

type SpecEnv struct {
	x        *Exec
	s        *State
	old      *State // nil: pristine entry state of the function under verification
	vars     map[string]Val
	lets     map[string]Val
	frame    *Frame
	pkgPath  string
	fn       *ssa.Function
	bound    map[string]*Term
	inOld    bool
	defDepth int
	prev     *State // state at the head of the loop (step clauses)
	// assuming: the clause being evaluated will be assumed, never checked
	// (a callee's postcondition at a call site, a precondition at function
	// entry, an invariant of a value coming from outside). neg counts the
	// negations / implication antecedents around the current sub-expression.
	// Together they select the encoding of an equality between pointers to
	// different symbolic objects (see ptrEq).
	assuming bool
	neg      int
	quiet    bool   // unknown identifiers are not errors (probing)
}

func (x *Exec) specEnv(s *State, old *State) *SpecEnv {
	env := &SpecEnv{x: x, s: s, old: old, vars: map[string]Val{}, lets: map[string]Val{}, bound: map[string]*Term{}}
	for k, v := range x.params {
		env.vars[k] = v
	}
	for k, v := range x.entryLets {
		env.lets[k] = v
	}
	if x.fn.Pkg != nil {
		env.pkgPath = x.fn.Pkg.Pkg.Path()
	} else if x.c != nil {
		env.pkgPath = x.c.Pkg
	}
	env.fn = x.fn
	return env
}

// specEnvEntry: environment whose current state is the pristine entry state
// (used to evaluate assigns clauses of the function under verification).
func (x *Exec) specEnvEntry(s *State) *SpecEnv {
	env := x.specEnv(s, nil)
	env.inOld = true
	return env
}

// specEnvFrame: environment for loop invariants inside the current frame.
func (x *Exec) specEnvFrame(s *State) *SpecEnv {
	return x.specEnvOf(s, s.top())
}

// clauseFrame: the frame whose contract speaks for the code being executed —
// the top frame, unless that is a contract-less helper taken by its body
// (auto-inlined); then the nearest enclosing frame that has a contract or is
// the function under verification. Its at-call / at-send / on-recv clauses keep
// applying to calls and channel operations that an edit moved into a helper.
func (x *Exec) clauseFrame(s *State) *Frame {
	for i := len(s.frames) - 1; i >= 0; i-- {
		fr := s.frames[i]
		if fr.fn == x.fn || x.P.contractFor(fr.fn) != nil {
			return fr
		}
	}
	return s.top()
}

func (x *Exec) specEnvOf(s *State, fr *Frame) *SpecEnv {
	env := x.specEnv(s, nil)
	env.frame = fr
	if env.frame.fn != x.fn {
		env.vars = map[string]Val{}
		env.fn = env.frame.fn
		if p := env.frame.fn; p != nil {
			for p.Parent() != nil {
				p = p.Parent()
			}
			if p.Pkg != nil {
				env.pkgPath = p.Pkg.Pkg.Path()
			}
		}
	}
	return env
}

func (env *SpecEnv) setLet(name string, v Val) { env.lets[name] = v }

func (x *Exec) evalLet(env *SpecEnv, l *Clause) {
	// let name = expr   is parsed as a binary expression "name == expr"
	be, ok := l.Expr.(*ast.BinaryExpr)
	if !ok || be.Op != token.EQL {
		x.errorf("%s:%d: let needs the form `name == expr`", l.File, l.Line)
		return
	}
	id, ok := be.X.(*ast.Ident)
	if !ok {
		x.errorf("%s:%d: let needs an identifier on the left", l.File, l.Line)
		return
	}
	env.lets[id.Name] = env.eval(be.Y)
	if env.fn == x.fn && env.frame == nil {
		if x.entryLets == nil {
			x.entryLets = map[string]Val{}
		}
		if _, dup := x.entryLets[id.Name]; !dup && x.inEntry {
			x.entryLets[id.Name] = env.lets[id.Name]
		}
	}
}

func (env *SpecEnv) bindResults(fn *ssa.Function, ret Val) {
	env.bindResultsSig(fn.Signature, ret)
}

func (env *SpecEnv) bindResultsSig(sig *types.Signature, ret Val) {
	res := sig.Results()
	if res == nil || res.Len() == 0 {
		return
	}
	if res.Len() == 1 {
		env.vars["result"] = ret
		env.vars["result0"] = ret
		if n := res.At(0).Name(); n != "" && n != "_" {
			env.vars[n] = ret
		}
		return
	}
	tv, ok := ret.(*TupleV)
	if !ok {
		return
	}
	for i := 0; i < res.Len() && i < len(tv.E); i++ {
		env.vars[fmt.Sprintf("result%d", i)] = tv.E[i]
		if n := res.At(i).Name(); n != "" && n != "_" {
			env.vars[n] = tv.E[i]
		}
	}
}

func (env *SpecEnv) errf(format string, args ...interface{}) {
	if env.quiet {
		return
	}
	env.x.errorf("spec: "+format, args...)
}

// state returns the state expressions are currently evaluated in.
func (env *SpecEnv) cur() *State {
	if env.inOld {
		if env.old != nil {
			return env.old
		}
		// pristine entry: an empty heap where lazy objects materialise with
		// their canonical names; facts are forwarded to the live state
		if env.x.pristine == nil {
			env.x.pristine = newState()
			env.x.pristine.frames = []*Frame{{fn: env.x.fn, regs: map[ssa.Value]Val{}, names: map[string]Val{}}}
		}
		return env.x.pristine
	}
	return env.s
}

func (env *SpecEnv) syncFacts() {
	if env.x.pristine == nil {
		return
	}
	for _, f := range env.x.pristine.pc {
		env.s.assume(f)
	}
}

func (env *SpecEnv) evalBool(e ast.Expr) *Term {
	v := env.eval(e)
	env.syncFacts()
	if t, ok := v.(*Term); ok && t.S == SBool {
		return t
	}
	env.errf("expression %s is not boolean (%T)", exprString(e), v)
	return TTrue
}

func exprString(e ast.Expr) string {
	return types.ExprString(e)
}

func (env *SpecEnv) evalTerm(e ast.Expr) *Term {
	v := env.eval(e)
	switch t := v.(type) {
	case *Term:
		return t
	case *OpaqueV:
		return t.T
	case *SliceV:
		if isByteType(t.Elem) {
			return env.x.E.sliceBytes(env.cur(), t)
		}
	case *PtrV:
		// pointer to an abstract buffer: its content
		if a, ok := env.deref(t).(*AbsV); ok {
			if c, ok := a.F["content"]; ok {
				return c.(*Term)
			}
		}
	case *AbsV:
		if c, ok := t.F["content"]; ok {
			return c.(*Term)
		}
	}
	env.errf("expression %s is not a scalar (%T)", exprString(e), v)
	return Int(0)
}

func (env *SpecEnv) deref(p *PtrV) Val {
	if p.Obj == nil {
		return nil
	}
	return env.x.load(env.cur(), p)
}

func (env *SpecEnv) lookupIdent(name string) (Val, bool) {
	if b, ok := env.bound[name]; ok {
		return b, true
	}
	if v, ok := env.lets[name]; ok {
		return v, true
	}
	if v, ok := env.cur().binds[name]; ok {
		return v, true
	}
	if env.frame != nil && !env.inOld {
		// a variable living in memory is read through its cell (the value
		// recorded at its last use may be stale)
		if p, ok := env.frame.names["&"+name]; ok {
			if pv, ok := p.(*PtrV); ok {
				return env.deref(pv), true
			}
		}
		if v, ok := env.frame.names[name]; ok && !env.inOld {
			return v, true
		}
	}
	if strings.HasPrefix(name, "g_") {
		// ghost (specification-only) variable
		st := env.cur()
		if v, ok := st.ghost[name]; ok {
			return v, true
		}
		v := Var(name+"@entry", ghostSort(name))
		st.ghost[name] = v
		return v, true
	}
	if v, ok := env.vars[name]; ok {
		return v, true
	}
	if p, ok := env.vars["&"+name]; ok {
		if pv, ok := p.(*PtrV); ok {
			return env.deref(pv), true
		}
	}
	return nil, false
}

func (env *SpecEnv) pkg() *types.Package {
	if sp := env.x.P.SSA[env.pkgPath]; sp != nil {
		return sp.Pkg
	}
	return nil
}

// importedPkg resolves a package name as visible from the contract's package.
func (env *SpecEnv) importedPkg(name string) *ssa.Package {
	p := env.pkg()
	if p != nil {
		for _, imp := range p.Imports() {
			if imp.Name() == name {
				return env.x.P.SSA[imp.Path()]
			}
		}
	}
	// fall back: any loaded package with that name inside the module
	for path, sp := range env.x.P.SSA {
		if strings.HasPrefix(path, modPath) && sp.Pkg.Name() == name {
			return sp
		}
	}
	for _, sp := range env.x.P.SSA {
		if sp.Pkg.Name() == name {
			return sp
		}
	}
	return nil
}

func (env *SpecEnv) pkgMember(sp *ssa.Package, name string) (Val, bool) {
	if sp == nil {
		return nil, false
	}
	switch m := sp.Members[name].(type) {
	case *ssa.Global:
		pv := env.x.val(env.cur(), m).(*PtrV)
		return env.deref(pv), true
	case *ssa.NamedConst:
		return env.x.constVal(m.Value), true
	case *ssa.Function:
		return &FuncV{Nil: TFalse, Fn: m, Sig: m.Signature}, true
	}
	return nil, false
}

func (env *SpecEnv) eval(e ast.Expr) Val {
	switch n := e.(type) {
	case *ast.ParenExpr:
		return env.eval(n.X)
	case *ast.BasicLit:
		switch n.Kind {
		case token.INT:
			v := constant.MakeFromLiteral(n.Value, token.INT, 0)
			if i, ok := constant.Int64Val(v); ok {
				return Int(i)
			}
			bi, _ := new(big.Int).SetString(v.ExactString(), 10)
			return IntB(bi)
		case token.FLOAT:
			return RealLit(n.Value)
		case token.STRING:
			s, err := strconv.Unquote(n.Value)
			if err != nil {
				env.errf("bad string literal %s", n.Value)
			}
			return Str(s)
		case token.CHAR:
			s, _ := strconv.Unquote(n.Value)
			r := []rune(s)
			if len(r) == 1 {
				return Int(int64(r[0]))
			}
		}
	case *ast.Ident:
		switch n.Name {
		case "true":
			return TTrue
		case "false":
			return TFalse
		case "nil":
			return &nilV{}
		}
		if v, ok := env.lookupIdent(n.Name); ok {
			return v
		}
		if v, ok := env.pkgMember(env.x.P.SSA[env.pkgPath], n.Name); ok {
			return v
		}
		env.errf("unknown identifier %s (pkg %s)", n.Name, shortPkg(env.pkgPath))
		return Int(0)
	case *ast.SelectorExpr:
		if id, ok := n.X.(*ast.Ident); ok {
			if _, isVar := env.lookupIdent(id.Name); !isVar {
				if sp := env.importedPkg(id.Name); sp != nil {
					if v, ok := env.pkgMember(sp, n.Sel.Name); ok {
						return v
					}
					env.errf("unknown member %s.%s", id.Name, n.Sel.Name)
					return Int(0)
				}
			}
		}
		return env.selectField(env.eval(n.X), n.Sel.Name, e)
	case *ast.StarExpr:
		v := env.eval(n.X)
		if p, ok := v.(*PtrV); ok {
			return env.deref(p)
		}
		env.errf("deref of %T in %s", v, exprString(e))
	case *ast.UnaryExpr:
		switch n.Op {
		case token.NOT:
			env.neg++
			t := env.evalBool(n.X)
			env.neg--
			return Not(t)
		case token.SUB:
			t := env.evalTerm(n.X)
			if t.S == SReal {
				return Sub(RealLit("0.0"), t)
			}
			return Sub(Int(0), t)
		}
	case *ast.BinaryExpr:
		return env.binary(n)
	case *ast.IndexExpr:
		return env.index(n)
	case *ast.SliceExpr:
		return env.sliceExpr(n)
	case *ast.CallExpr:
		return env.callExpr(n)
	}
	env.errf("unsupported expression %s (%T)", exprString(e), e)
	return Int(0)
}

type nilV struct{}

func (env *SpecEnv) isNilTerm(v Val) *Term {
	switch p := v.(type) {
	case *nilV:
		return TTrue
	case *PtrV:
		if p.Obj == nil {
			return TTrue
		}
		return p.Nil
	case *SliceV:
		if p.Obj == nil {
			return TTrue
		}
		return p.Nil
	case *MapV:
		if p.Obj == nil {
			return TTrue
		}
		return p.Nil
	case *ChanV:
		if p.Obj == nil {
			return TTrue
		}
		return p.Nil
	case *IfaceV:
		return p.Nil
	case *FuncV:
		return p.Nil
	}
	if _, isTerm := v.(*Term); isTerm {
		// a field read through a definitely-nil pointer compared with a scalar:
		// only meaningful under a guard that is false on this path
		env.x.E.nextObj++
		return Var(fmt.Sprintf("undef%d", env.x.E.nextObj), SBool)
	}
	env.errf("nil comparison of %T", v)
	return TFalse
}

func (env *SpecEnv) binary(n *ast.BinaryExpr) Val {
	switch n.Op {
	case token.LAND:
		return And(env.evalBool(n.X), env.evalBool(n.Y))
	case token.LOR:
		return Or(env.evalBool(n.X), env.evalBool(n.Y))
	}
	a, b := env.eval(n.X), env.eval(n.Y)
	if n.Op == token.EQL || n.Op == token.NEQ {
		var eq *Term
		_, an := a.(*nilV)
		_, bn := b.(*nilV)
		switch {
		case an:
			eq = env.isNilTerm(b)
		case bn:
			eq = env.isNilTerm(a)
		default:
			at, aok := env.scalar(a)
			bt, bok := env.scalar(b)
			if aok && bok {
				eq = Eq(at, bt)
			} else {
				positive := (env.neg%2 == 0) != (n.Op == token.NEQ)
				eq = env.ptrEq(a, b, env.assuming && positive)
			}
		}
		if n.Op == token.NEQ {
			return Not(eq)
		}
		return eq
	}
	at, aok := env.scalar(a)
	bt, bok := env.scalar(b)
	if !aok || !bok {
		env.errf("operator %s on %T,%T in %s", n.Op, a, b, exprString(n))
		return Int(0)
	}
	switch n.Op {
	case token.ADD:
		if at.S == SString {
			return Concat(at, bt)
		}
		return Add(at, bt)
	case token.SUB:
		return Sub(at, bt)
	case token.MUL:
		return Mul(at, bt)
	case token.QUO:
		return Div(at, bt)
	case token.REM:
		return Mod(at, bt)
	case token.LSS:
		return Lt(at, bt)
	case token.LEQ:
		return Le(at, bt)
	case token.GTR:
		return Gt(at, bt)
	case token.GEQ:
		return Ge(at, bt)
	}
	env.errf("unsupported operator %s", n.Op)
	return Int(0)
}

// scalar coerces byte slices and buffers to their String content.
func (env *SpecEnv) scalar(v Val) (*Term, bool) {
	switch t := v.(type) {
	case *Term:
		return t, true
	case *OpaqueV:
		return t.T, true
	case *SliceV:
		if isByteType(t.Elem) {
			return env.x.E.sliceBytes(env.cur(), t), true
		}
	case *AbsV:
		if c, ok := t.F["content"]; ok {
			return c.(*Term), true
		}
	}
	return nil, false
}

func (env *SpecEnv) selectField(v Val, name string, e ast.Expr) Val {
	switch p := v.(type) {
	case *nilV:
		return &nilV{}
	case *PtrV:
		inner := env.deref(p)
		if inner == nil {
			// field of a definitely-nil pointer: only meaningful under a guard
			return &nilV{}
		}
		return env.selectField(inner, name, e)
	case *StructV:
		st := under(p.Typ).(*types.Struct)
		for i := 0; i < st.NumFields(); i++ {
			if st.Field(i).Name() == name {
				return p.F[i]
			}
		}
		// promoted through embedded fields
		for i := 0; i < st.NumFields(); i++ {
			if st.Field(i).Embedded() {
				inner := p.F[i]
				if pv, ok := inner.(*PtrV); ok {
					inner = env.deref(pv)
				}
				if sv, ok := inner.(*StructV); ok {
					if hasFieldDeep(sv.Typ, name) {
						return env.selectField(sv, name, e)
					}
				}
			}
		}
		env.errf("no field %s in %s (%s)", name, typeName(p.Typ), exprString(e))
		return Int(0)
	case *AbsV:
		if f, ok := p.F[name]; ok {
			return f
		}
		env.errf("no ghost field %s on %s", name, typeName(p.Typ))
		return Int(0)
	case *ChanV:
		if p.Obj == nil {
			// only meaningful under a guard that excludes the nil channel
			env.x.E.nextObj++
			return Var(fmt.Sprintf("undefchan%d", env.x.E.nextObj), SInt)
		}
		cs := env.x.E.objVal(env.cur(), p.Obj).(*ChanStore)
		switch name {
		case "sent":
			return cs.Sent
		case "sentCount":
			return cs.SentCnt
		case "recvCount":
			return cs.RecvCnt
		case "cap":
			return cs.Cap
		case "closed":
			return cs.Closed
		case "held":
			return cs.Held
		case "len":
			if cs.Len != nil {
				return cs.Len
			}
		case "lastCount":
			if cs.LastCount != nil {
				return cs.LastCount
			}
		}
	case *SliceV:
		switch name {
		case "len":
			return p.Len
		case "cap":
			return p.Cap
		}
	case *IfaceV:
		if p.Dyn != nil {
			return env.selectField(p.V, name, e)
		}
	}
	env.errf("cannot select %s from %T in %s", name, v, exprString(e))
	return Int(0)
}

func hasFieldDeep(t types.Type, name string) bool {
	st, ok := under(t).(*types.Struct)
	if !ok {
		return false
	}
	for i := 0; i < st.NumFields(); i++ {
		if st.Field(i).Name() == name {
			return true
		}
		if st.Field(i).Embedded() {
			ft := st.Field(i).Type()
			if p, ok := ft.(*types.Pointer); ok {
				ft = p.Elem()
			}
			if hasFieldDeep(ft, name) {
				return true
			}
		}
	}
	return false
}

func (env *SpecEnv) index(n *ast.IndexExpr) Val {
	v := env.eval(n.X)
	s := env.cur()
	switch c := v.(type) {
	case *Term:
		if c.S == SString {
			i := env.evalTerm(n.Index)
			return StrCode(StrAt(c, i))
		}
		if c.S.Name == "Array" {
			return Select(c, env.evalTerm(n.Index))
		}
	case *SliceV:
		i := env.evalTerm(n.Index)
		if c.Obj == nil {
			return env.x.E.zeroVal(c.Elem, "nilslice")
		}
		av := env.x.E.objVal(s, c.Obj).(*ArrV)
		if av.IsStr {
			return StrCode(StrAt(av.T, Add(c.Off, i)))
		}
		return env.x.E.fromTerm(s, Select(av.T, Add(c.Off, i)), c.Elem, fmt.Sprintf("%s[%s]", c.Obj.name, i))
	case *ArrV:
		i := env.evalTerm(n.Index)
		if c.IsStr {
			return StrCode(StrAt(c.T, i))
		}
		return env.x.E.fromTerm(s, Select(c.T, i), c.Elem, "arr[]")
	case *MapV:
		if c.Obj == nil {
			return env.x.E.zeroVal(c.V, "nilmap")
		}
		ms := env.x.E.objVal(s, c.Obj).(*MapStore)
		kt := env.x.E.toTerm(s, env.eval(n.Index), c.K)
		zero := env.x.E.zeroTerm(c.V)
		raw := Select(ms.Val, kt)
		vt := raw
		if zero.S.Eq(raw.S) {
			vt = Ite(And(Not(c.Nil), Select(ms.Dom, kt)), raw, zero)
		}
		return env.x.E.fromTerm(s, vt, c.V, fmt.Sprintf("%s[%s]", c.Obj.name, kt))
	case *PtrV:
		inner := env.deref(c)
		if av, ok := inner.(*ArrV); ok {
			i := env.evalTerm(n.Index)
			if av.IsStr {
				return StrCode(StrAt(av.T, i))
			}
			return env.x.E.fromTerm(s, Select(av.T, i), av.Elem, "arr[]")
		}
	}
	env.errf("cannot index %T in %s", v, exprString(n))
	return Int(0)
}

func (env *SpecEnv) sliceExpr(n *ast.SliceExpr) Val {
	v := env.eval(n.X)
	switch c := v.(type) {
	case *Term:
		ln := StrLen(c)
		lo, hi := Int(0), ln
		if n.Low != nil {
			lo = env.evalTerm(n.Low)
		}
		if n.High != nil {
			hi = env.evalTerm(n.High)
		}
		return Substr(c, lo, Sub(hi, lo))
	case *SliceV:
		lo, hi := Int(0), c.Len
		if n.Low != nil {
			lo = env.evalTerm(n.Low)
		}
		if n.High != nil {
			hi = env.evalTerm(n.High)
		}
		return &SliceV{Nil: c.Nil, Obj: c.Obj, Off: Add(c.Off, lo), Len: Sub(hi, lo), Cap: Sub(c.Cap, lo), Elem: c.Elem}
	}
	env.errf("cannot slice %T in %s", v, exprString(n))
	return Int(0)
}

func (env *SpecEnv) callExpr(n *ast.CallExpr) Val {
	name := ""
	switch f := n.Fun.(type) {
	case *ast.Ident:
		name = f.Name
	case *ast.SelectorExpr:
		name = exprString(f)
	}
	arg := func(i int) ast.Expr {
		if i >= len(n.Args) {
			env.errf("%s: missing argument %d", name, i)
			return &ast.Ident{Name: "false"}
		}
		return n.Args[i]
	}
	switch name {
	case "cur":
		// cur(x): the current value of x, said explicitly (see checkParamsUnchanged)
		return env.eval(arg(0))
	case "prev":
		if env.prev == nil {
			env.errf("prev(...) outside a loop step clause")
			return Int(0)
		}
		sub := *env
		sub.s = env.prev
		sub.prev = nil
		sub.inOld = false
		if len(env.prev.frames) > 0 {
			sub.frame = env.prev.top()
		}
		n0 := len(env.prev.pc)
		v := sub.eval(arg(0))
		// facts learnt while reading the snapshot (lazy objects) hold now too
		for _, f := range env.prev.pc[n0:] {
			env.s.assume(f)
		}
		return v
	case "old":
		saved := env.inOld
		env.inOld = true
		savedFrame := env.frame
		v := env.eval(arg(0))
		env.inOld = saved
		env.frame = savedFrame
		env.syncFacts()
		return v
	case "len":
		return env.x.lenOf(env.cur(), env.eval(arg(0)))
	case "cap":
		if sv, ok := env.eval(arg(0)).(*SliceV); ok {
			return sv.Cap
		}
		if cv, ok := env.eval(arg(0)).(*ChanV); ok && cv.Obj != nil {
			return env.x.E.objVal(env.cur(), cv.Obj).(*ChanStore).Cap
		}
	case "implies":
		env.neg++
		ante := env.evalBool(arg(0))
		env.neg--
		return Implies(ante, env.evalBool(arg(1)))
	case "iff":
		// both polarities: keep the strict encoding (as in a negative position)
		env.neg++
		l, r := env.evalBool(arg(0)), env.evalBool(arg(1))
		env.neg--
		return Eq(l, r)
	case "ite":
		c := env.evalBool(arg(0))
		a, b := env.evalTerm(arg(1)), env.evalTerm(arg(2))
		return Ite(c, a, b)
	case "forall", "exists":
		// forall(i, lo, hi, body): lo <= i < hi
		id, ok := arg(0).(*ast.Ident)
		if !ok {
			env.errf("%s: first argument must be an identifier", name)
			return TTrue
		}
		env.x.E.nextObj++
		bv := Var(fmt.Sprintf("%s!%d", id.Name, env.x.E.nextObj), SInt)
		lo, hi := env.evalTerm(arg(1)), env.evalTerm(arg(2))
		saved, had := env.bound[id.Name]
		env.bound[id.Name] = bv
		body := env.evalBool(arg(3))
		if had {
			env.bound[id.Name] = saved
		} else {
			delete(env.bound, id.Name)
		}
		rng := And(Le(lo, bv), Lt(bv, hi))
		if name == "forall" {
			return Forall([]*Term{bv}, Implies(rng, body))
		}
		return Exists([]*Term{bv}, And(rng, body))
	case "forallStr", "existsStr":
		id, ok := arg(0).(*ast.Ident)
		if !ok {
			env.errf("%s: first argument must be an identifier", name)
			return TTrue
		}
		env.x.E.nextObj++
		bv := Var(fmt.Sprintf("%s!%d", id.Name, env.x.E.nextObj), SString)
		saved, had := env.bound[id.Name]
		env.bound[id.Name] = bv
		body := env.evalBool(arg(1))
		if had {
			env.bound[id.Name] = saved
		} else {
			delete(env.bound, id.Name)
		}
		if name == "forallStr" {
			return Forall([]*Term{bv}, body)
		}
		return Exists([]*Term{bv}, body)
	case "contains":
		return StrContains(env.evalTerm(arg(0)), env.evalTerm(arg(1)))
	case "hasPrefix":
		return StrPrefixOf(env.evalTerm(arg(1)), env.evalTerm(arg(0)))
	case "hasSuffix":
		return StrSuffixOf(env.evalTerm(arg(1)), env.evalTerm(arg(0)))
	case "concat":
		var ts []*Term
		for i := range n.Args {
			ts = append(ts, env.evalTerm(n.Args[i]))
		}
		return Concat(ts...)
	case "substr":
		return Substr(env.evalTerm(arg(0)), env.evalTerm(arg(1)), env.evalTerm(arg(2)))
	case "indexOf":
		return StrIndexOf(env.evalTerm(arg(0)), env.evalTerm(arg(1)), Int(0))
	case "at":
		return StrAt(env.evalTerm(arg(0)), env.evalTerm(arg(1)))
	case "char":
		return StrFromCode(env.evalTerm(arg(0)))
	case "itoa":
		t := env.evalTerm(arg(0))
		return Ite(Ge(t, Int(0)), StrFromInt(t), Concat(Str("-"), StrFromInt(Sub(Int(0), t))))
	case "toInt":
		return app("str.to_int", SInt, env.evalTerm(arg(0)))
	case "replaceAll":
		return StrReplaceAll(env.evalTerm(arg(0)), env.evalTerm(arg(1)), env.evalTerm(arg(2)))
	case "str", "string", "content":
		return env.evalTerm(arg(0))
	case "has":
		mv, ok := env.eval(arg(0)).(*MapV)
		if !ok || mv.Obj == nil {
			return TFalse
		}
		ms := env.x.E.objVal(env.cur(), mv.Obj).(*MapStore)
		kt := env.x.E.toTerm(env.cur(), env.eval(arg(1)), mv.K)
		return And(Not(mv.Nil), Select(ms.Dom, kt))
	case "min", "max":
		a, b := env.evalTerm(arg(0)), env.evalTerm(arg(1))
		if name == "min" {
			return Ite(Le(a, b), a, b)
		}
		return Ite(Ge(a, b), a, b)
	case "int", "int64", "uint64", "byte", "uint", "int32":
		return env.evalTerm(arg(0))
	case "float64", "real":
		return ToReal(env.evalTerm(arg(0)))
	case "carries":
		// carries(ch, "label"): the channel carries the named invariant
		lit, _ := arg(1).(*ast.BasicLit)
		cv, ok := env.eval(arg(0)).(*ChanV)
		if lit == nil || !ok || cv.Obj == nil {
			return TFalse
		}
		lbl, _ := strconv.Unquote(lit.Value)
		d := env.x.P.chanInvByLabel(lbl)
		if d == nil {
			env.errf("carries: unknown channel invariant label %q", lbl)
			return TFalse
		}
		return Bool(env.x.chanHasInv(env.cur(), cv, d))
	case "id":
		// identity of a reference / interface value
		switch p := env.eval(arg(0)).(type) {
		case *IfaceV:
			if p.Opaque != nil {
				return p.Opaque
			}
		case *PtrV:
			if p.Obj != nil {
				return Int(int64(p.Obj.id))
			}
		}
		return Int(0)
	case "funcIs":
		// funcIs(f, "name"): the function value is (a bound method of) the named function
		fv, ok := env.eval(arg(0)).(*FuncV)
		lit, _ := arg(1).(*ast.BasicLit)
		if !ok || lit == nil {
			return TFalse
		}
		want, _ := strconv.Unquote(lit.Value)
		if fn, ok := fv.Fn.(*ssa.Function); ok {
			return Bool(strings.Contains(fn.String(), want))
		}
		// an unknown function value (e.g. a callee's fresh result): neither
		// provable nor refutable — in particular not "false", which, assumed
		// under an implication, would silently refute the implication's condition
		env.x.E.nextObj++
		return Var(fmt.Sprintf("funcis!%d", env.x.E.nextObj), SBool)
	case "cancelled":
		if v, ok := env.cur().ghost["cancelled"].(*Term); ok {
			return v
		}
		return TFalse
	case "allNonNil":
		// every value stored in the map is a non-nil reference
		mv, ok := env.eval(arg(0)).(*MapV)
		if !ok || mv.Obj == nil {
			return TTrue
		}
		ms := env.x.E.objVal(env.cur(), mv.Obj).(*MapStore)
		env.x.E.nextObj++
		kv := Var(fmt.Sprintf("k!%d", env.x.E.nextObj), ms.Dom.S.Idx)
		return Forall([]*Term{kv}, Implies(Select(ms.Dom, kv), Neq(Select(ms.Val, kv), Int(0))))
	case "isnil":
		return env.isNilTerm(env.eval(arg(0)))
	case "dynIs":
		// dynIs(x, "pkg.Type"): interface value has the given dynamic type
		iv, ok := env.eval(arg(0)).(*IfaceV)
		lit, _ := arg(1).(*ast.BasicLit)
		if ok && lit != nil && iv.Dyn != nil {
			want, _ := strconv.Unquote(lit.Value)
			return Bool(typeName(iv.Dyn) == want)
		}
		return TFalse
	}
	// uninterpreted spec functions: uf_name(args...) with Int result,
	// ufb_ Bool, ufs_ String
	for prefix, srt := range map[string]*Sort{"uf_": SInt, "ufb_": SBool, "ufs_": SString, "ufr_": SReal} {
		if strings.HasPrefix(name, prefix) {
			var ts []*Term
			for i := range n.Args {
				ts = append(ts, env.evalTerm(n.Args[i]))
			}
			return UF(name, srt, ts...)
		}
	}
	// spec-level definitions shared with the library model
	if def, ok := specDefs[name]; ok {
		var vs []Val
		for i := range n.Args {
			vs = append(vs, env.eval(n.Args[i]))
		}
		return def(env, vs)
	}
	// spec functions defined in the contract file of the package
	if ps := env.x.P.Specs[env.pkgPath]; ps != nil {
		if d := ps.Defines[name]; d != nil {
			if len(n.Args) != len(d.Params) {
				env.errf("%s takes %d arguments", name, len(d.Params))
				return Int(0)
			}
			if env.defDepth > 8 {
				env.errf("define %s: recursion is not supported", name)
				return Int(0)
			}
			saved := map[string]Val{}
			had := map[string]bool{}
			var vals []Val
			for i := range n.Args {
				vals = append(vals, env.eval(n.Args[i]))
			}
			for i, pn := range d.Params {
				saved[pn], had[pn] = env.lets[pn]
				env.lets[pn] = vals[i]
			}
			env.defDepth++
			v := env.eval(d.Body.Expr)
			env.defDepth--
			for _, pn := range d.Params {
				if had[pn] {
					env.lets[pn] = saved[pn]
				} else {
					delete(env.lets, pn)
				}
			}
			return v
		}
	}
	env.errf("unknown spec function %s in %s", name, exprString(n))
	return Int(0)
}

// specDefs: named spec functions implemented in Go (see lib.go).
var specDefs = map[string]func(env *SpecEnv, args []Val) Val{}

// evalLoc evaluates an assigns entry to write records.
func (env *SpecEnv) evalLoc(src string) []writeRec {
	src = strings.TrimSpace(src)
	e, err := parser.ParseExpr(src)
	if err != nil {
		env.errf("cannot parse assigns entry %q: %v", src, err)
		return nil
	}
	saved := env.inOld
	env.inOld = true
	defer func() { env.inOld = saved; env.syncFacts() }()
	return env.locOf(e)
}

func (env *SpecEnv) locOf(e ast.Expr) []writeRec {
	switch n := e.(type) {
	case *ast.ParenExpr:
		return env.locOf(n.X)
	case *ast.StarExpr:
		v := env.eval(n.X)
		return env.locOfVal(v, e)
	case *ast.SelectorExpr:
		// x.f : the field f of the struct x points to (or x designates)
		base := env.locBase(n.X)
		if base == nil {
			// maybe a package-level variable
			if id, ok := n.X.(*ast.Ident); ok {
				if sp := env.importedPkg(id.Name); sp != nil {
					if g, ok := sp.Members[n.Sel.Name].(*ssa.Global); ok {
						pv := env.x.val(env.cur(), g).(*PtrV)
						return []writeRec{{obj: pv.Obj}}
					}
				}
			}
			env.errf("assigns: cannot resolve base of %s", exprString(e))
			return nil
		}
		t := base.typ
		path := append([]int(nil), base.fpath...)
		idx, ft, ok := fieldIndexDeep(t, n.Sel.Name)
		if !ok {
			// ghost field of an abstract object: the object itself
			return []writeRec{{obj: base.obj, fpath: path}}
		}
		_ = ft
		path = append(path, idx...)
		return []writeRec{{obj: base.obj, fpath: path}}
	case *ast.Ident:
		v, ok := env.lookupIdent(n.Name)
		if !ok {
			if g, ok := env.x.P.SSA[env.pkgPath].Members[n.Name].(*ssa.Global); ok {
				pv := env.x.val(env.cur(), g).(*PtrV)
				return []writeRec{{obj: pv.Obj}}
			}
			env.errf("assigns: unknown %s", n.Name)
			return nil
		}
		return env.locOfVal(v, e)
	case *ast.IndexExpr:
		return env.locOf(n.X)
	case *ast.UnaryExpr:
		if n.Op == token.AND {
			// &name: the captured variable's own cell
			if id, ok := n.X.(*ast.Ident); ok {
				if p, ok := env.vars["&"+id.Name]; ok {
					return env.locOfVal(p, e)
				}
				if env.frame != nil {
					if p, ok := env.frame.names["&"+id.Name]; ok {
						return env.locOfVal(p, e)
					}
				}
			}
			env.errf("assigns: cannot resolve %s", exprString(e))
			return nil
		}
	}
	v := env.eval(e)
	return env.locOfVal(v, e)
}

type locBase struct {
	obj   *Object
	fpath []int
	typ   types.Type
}

// locBase resolves an expression to the struct location it designates.
func (env *SpecEnv) locBase(e ast.Expr) *locBase {
	switch n := e.(type) {
	case *ast.ParenExpr:
		return env.locBase(n.X)
	case *ast.SelectorExpr:
		b := env.locBase(n.X)
		if b == nil {
			return nil
		}
		idx, ft, ok := fieldIndexDeep(b.typ, n.Sel.Name)
		if !ok {
			return nil
		}
		// the field may itself be a pointer: then follow it
		nb := &locBase{obj: b.obj, fpath: append(append([]int(nil), b.fpath...), idx...), typ: ft}
		if _, isPtr := under(ft).(*types.Pointer); isPtr {
			v := env.eval(e)
			if pv, ok := v.(*PtrV); ok && pv.Obj != nil {
				return ptrBase(pv)
			}
			return nil
		}
		return nb
	}
	v := env.eval(e)
	if pv, ok := v.(*PtrV); ok && pv.Obj != nil {
		return ptrBase(pv)
	}
	return nil
}

func ptrBase(pv *PtrV) *locBase {
	b := &locBase{obj: pv.Obj, typ: pv.Elem}
	for _, pe := range pv.Path {
		if pe.Index != nil {
			break
		}
		b.fpath = append(b.fpath, pe.Field)
	}
	return b
}

func fieldIndexDeep(t types.Type, name string) ([]int, types.Type, bool) {
	st, ok := under(t).(*types.Struct)
	if !ok {
		return nil, nil, false
	}
	for i := 0; i < st.NumFields(); i++ {
		if st.Field(i).Name() == name {
			return []int{i}, st.Field(i).Type(), true
		}
	}
	for i := 0; i < st.NumFields(); i++ {
		if st.Field(i).Embedded() {
			if _, isPtr := st.Field(i).Type().(*types.Pointer); isPtr {
				continue
			}
			if p, ft, ok := fieldIndexDeep(st.Field(i).Type(), name); ok {
				return append([]int{i}, p...), ft, true
			}
		}
	}
	return nil, nil, false
}

func (env *SpecEnv) locOfVal(v Val, e ast.Expr) []writeRec {
	switch p := v.(type) {
	case *PtrV:
		if p.Obj == nil {
			return nil
		}
		b := ptrBase(p)
		return []writeRec{{obj: b.obj, fpath: b.fpath}}
	case *SliceV:
		if p.Obj != nil {
			return []writeRec{{obj: p.Obj}}
		}
		return nil
	case *MapV:
		if p.Obj != nil {
			return []writeRec{{obj: p.Obj}}
		}
		return nil
	case *ChanV:
		if p.Obj != nil {
			return []writeRec{{obj: p.Obj}}
		}
		return nil
	}
	env.errf("assigns: %s does not designate a location (%T)", exprString(e), v)
	return nil
}

// assumeEnsures assumes a postcondition at a call site. Conjuncts of the
// form `<location> == <reference value>` bind the location to that very
// object (so that later reads alias it) instead of constraining two
// unrelated symbolic objects to be equal.
func (env *SpecEnv) assumeEnsures(e ast.Expr, ret Val, sig *types.Signature) Val {
	switch n := e.(type) {
	case *ast.ParenExpr:
		return env.assumeEnsures(n.X, ret, sig)
	case *ast.BinaryExpr:
		if n.Op == token.LAND {
			ret = env.assumeEnsures(n.X, ret, sig)
			return env.assumeEnsures(n.Y, ret, sig)
		}
		if n.Op == token.EQL {
			if nr, ok := env.bindRef(n.X, n.Y, ret, sig); ok {
				return nr
			}
			if nr, ok := env.bindRef(n.Y, n.X, ret, sig); ok {
				return nr
			}
		}
	case *ast.CallExpr:
		if id, ok := n.Fun.(*ast.Ident); ok && id.Name == "carries" && len(n.Args) == 2 {
			lit, _ := n.Args[1].(*ast.BasicLit)
			av := env.eval(n.Args[0])
			cv, ok := av.(*ChanV)
			if lit != nil && ok && cv.Obj != nil {
				lbl, _ := strconv.Unquote(lit.Value)
				if d := env.x.P.chanInvByLabel(lbl); d != nil {
					env.x.attachEngineChanInv(cv.Obj, d)
				} else {
					env.errf("carries: unknown channel invariant label %q", lbl)
				}
			} else {
				env.errf("carries: %s is not a channel (%T)", exprString(n.Args[0]), av)
			}
			return ret
		}
		if id, ok := n.Fun.(*ast.Ident); ok && id.Name == "funcIs" {
			// identity of a function value cannot be bound at a call site
			env.x.E.note("ensures funcIs(...) is checked in the callee but not usable by callers")
			return ret
		}
		if id, ok := n.Fun.(*ast.Ident); ok && id.Name == "implies" && len(n.Args) == 2 {
			// implies(c, body): if c is decided on this path, descend
			c := env.evalBool(n.Args[0])
			if c.IsTrue() {
				return env.assumeEnsures(n.Args[1], ret, sig)
			}
			if c.IsFalse() {
				return ret
			}
		}
	}
	env.s.assume(env.evalAssumed(e))
	return ret
}

// evalAssumed evaluates a clause that is going to be assumed.
func (env *SpecEnv) evalAssumed(e ast.Expr) *Term {
	was := env.assuming
	env.assuming = true
	t := env.evalBool(e)
	env.assuming = was
	return t
}

// ptrEq: equality of two reference values in a contract clause.
//
// Two pointers to different symbolic objects are "equal only if both are nil"
// (valEq: symbolic objects are assumed not to alias). That is the right,
// conservative reading where the clause is checked, and wherever an assumed
// clause mentions the equality negatively. But where an assumed clause states
// the equality positively — a callee's postcondition "result.Content ==
// rawLine" — the two objects are one in the real execution, and "both nil"
// contradicts whatever is known about either: every path after the call would
// be infeasible and everything on it proved vacuously. There the equality is
// read as what it implies for two aliases: the same nil-ness and, if not nil,
// the same contents now. (Later writes through one name are still not seen
// through the other: the non-aliasing assumption, listed in the evidence.)
func (env *SpecEnv) ptrEq(a, b Val, assumedPositively bool) *Term {
	x, s := env.x, env.cur()
	strict := x.valEq(s, a, b, nil)
	if !assumedPositively {
		return strict
	}
	p, ok1 := a.(*PtrV)
	q, ok2 := b.(*PtrV)
	if !ok1 || !ok2 || p.Obj == nil || q.Obj == nil || p.Obj == q.Obj {
		return strict
	}
	same := TTrue
	func() {
		defer func() {
			if recover() != nil {
				same = TTrue
			}
		}()
		pv, qv := x.load(s, p), x.load(s, q)
		pa, okA := pv.(*AbsV)
		qa, okB := qv.(*AbsV)
		switch {
		case okA && okB:
			// abstract library objects (bytes.Buffer, …): their ghost fields
			var cs []*Term
			for k, fv := range pa.F {
				ft, ok := fv.(*Term)
				gt, ok2 := qa.F[k].(*Term)
				if ok && ok2 && ft.S.Eq(gt.S) {
					cs = append(cs, Eq(ft, gt))
				}
			}
			same = And(cs...)
		case pv != nil && qv != nil:
			same = x.valEq(s, pv, qv, nil)
		}
	}()
	x.E.assumeNote("a positively assumed equality of two pointers to different symbolic objects is read as: same nil-ness and equal contents at that point")
	return Or(And(p.Nil, q.Nil), And(Not(p.Nil), Not(q.Nil), same))
}

func isRefVal(v Val) bool {
	switch p := v.(type) {
	case *PtrV:
		return p.Obj != nil
	case *MapV:
		return p.Obj != nil
	case *ChanV:
		return p.Obj != nil
	}
	return false
}

// bindRef: lhs designates a location (a field reached from a result, or a
// result itself), rhs evaluates to a reference value.
func (env *SpecEnv) bindRef(lhs, rhs ast.Expr, ret Val, sig *types.Signature) (Val, bool) {
	// only bind when lhs mentions a result
	rootName := rootIdent(lhs)
	if rootName == "" {
		return ret, false
	}
	isResult := strings.HasPrefix(rootName, "result")
	if !isResult && sig != nil && sig.Results() != nil {
		for i := 0; i < sig.Results().Len(); i++ {
			if sig.Results().At(i).Name() == rootName {
				isResult = true
			}
		}
	}
	if !isResult {
		return ret, false
	}
	if containsOld(lhs) {
		return ret, false
	}
	rv := env.eval(rhs)
	if !isRefVal(rv) {
		return ret, false
	}
	lv := env.eval(lhs)
	if !isRefVal(lv) && !isNilRef(lv) {
		return ret, false
	}
	if id, ok := lhs.(*ast.Ident); ok {
		// the result itself
		idx := resultIndex(id.Name, sig)
		if idx < 0 {
			return ret, false
		}
		if tv, ok := ret.(*TupleV); ok {
			n := &TupleV{E: append([]Val(nil), tv.E...)}
			n.E[idx] = rv
			env.bindResultsSig(sig, n)
			return n, true
		}
		env.bindResultsSig(sig, rv)
		return rv, true
	}
	sel, ok := lhs.(*ast.SelectorExpr)
	if !ok {
		return ret, false
	}
	base := env.eval(sel.X)
	pv, ok := base.(*PtrV)
	if !ok || pv.Obj == nil {
		return ret, false
	}
	idx, _, ok := fieldIndexDeep(pv.Elem, sel.Sel.Name)
	if !ok {
		return ret, false
	}
	path := append([]PathElem(nil), pv.Path...)
	for _, f := range idx {
		path = append(path, PathElem{Field: f})
	}
	env.s.assume(Not(pv.Nil))
	env.x.store(env.s, &PtrV{Nil: TFalse, Obj: pv.Obj, Path: path}, rv)
	return ret, true
}

func isNilRef(v Val) bool {
	switch p := v.(type) {
	case *PtrV:
		return p.Obj == nil
	case *MapV:
		return p.Obj == nil
	case *ChanV:
		return p.Obj == nil
	}
	return false
}

func rootIdent(e ast.Expr) string {
	for {
		switch n := e.(type) {
		case *ast.Ident:
			return n.Name
		case *ast.SelectorExpr:
			e = n.X
		case *ast.ParenExpr:
			e = n.X
		case *ast.StarExpr:
			e = n.X
		default:
			return ""
		}
	}
}

func containsOld(e ast.Expr) bool {
	found := false
	ast.Inspect(e, func(n ast.Node) bool {
		if c, ok := n.(*ast.CallExpr); ok {
			if id, ok := c.Fun.(*ast.Ident); ok && id.Name == "old" {
				found = true
			}
		}
		return !found
	})
	return found
}

func resultIndex(name string, sig *types.Signature) int {
	if name == "result" || name == "result0" {
		return 0
	}
	var i int
	if n, _ := fmt.Sscanf(name, "result%d", &i); n == 1 {
		return i
	}
	if sig != nil && sig.Results() != nil {
		for j := 0; j < sig.Results().Len(); j++ {
			if sig.Results().At(j).Name() == name {
				return j
			}
		}
	}
	return -1
}

// ghostSort: ghost variables are integers unless their name ends in "Str"
// (or is g_stdout), which makes them byte strings.
func ghostSort(name string) *Sort {
	if strings.HasSuffix(name, "Str") || name == "g_stdout" {
		return SString
	}
	return SInt
}
