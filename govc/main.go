package main

import (
	"flag"
	"fmt"
	"os"
	"sort"
	"strings"
)

func main() {
	if len(os.Args) < 2 {
		fmt.Fprintln(os.Stderr, "usage: govc check --property Cxx [--tier quick|thorough] | govc dump pkg::fn | govc fn pkg::fn")
		os.Exit(2)
	}
	switch os.Args[1] {
	case "check":
		fs := flag.NewFlagSet("check", flag.ExitOnError)
		prop := fs.String("property", "", "property id")
		tier := fs.String("tier", "", "quick|thorough")
		fs.Parse(os.Args[2:])
		t := *tier
		if t == "" {
			t = os.Getenv("VERIF_TIER")
		}
		if t == "" {
			t = "quick"
		}
		os.Exit(checkProperty(*prop, t))
	case "dump":
		P, err := loadProgram(repoDir())
		if err != nil {
			fmt.Fprintln(os.Stderr, err)
			os.Exit(2)
		}
		for _, ref := range os.Args[2:] {
			fn, err := resolveFn(P, ref)
			if err != nil {
				fmt.Fprintln(os.Stderr, err)
				continue
			}
			fn.WriteTo(os.Stdout)
		}
	case "list":
		P, err := loadProgram(repoDir())
		if err != nil {
			fmt.Fprintln(os.Stderr, err)
			os.Exit(2)
		}
		var ks []string
		for k := range P.Funcs {
			ks = append(ks, k)
		}
		sort.Strings(ks)
		for _, k := range ks {
			if len(os.Args) > 2 && !strings.Contains(k, os.Args[2]) {
				continue
			}
			fmt.Println(strings.TrimPrefix(k, modPath+"/internal/"))
		}
	case "replay-run":
		// run the special replay driver of an obligation on the current tree
		P, err := loadProgram(repoDir())
		if err != nil {
			fmt.Fprintln(os.Stderr, err)
			os.Exit(2)
		}
		drv, ok := specialReplays[os.Args[2]]
		if !ok {
			fmt.Fprintln(os.Stderr, "no special replay for", os.Args[2])
			os.Exit(2)
		}
		_, out, reproduced, err := drv(P, &ObligResult{Name: os.Args[2], Model: map[string]string{}})
		fmt.Println(out)
		fmt.Println("reproduced:", reproduced, "err:", err)
	case "fn":
		// verify single functions and print every obligation (debugging aid)
		P, err := loadProgram(repoDir())
		if err != nil {
			fmt.Fprintln(os.Stderr, err)
			os.Exit(2)
		}
		for _, ref := range os.Args[2:] {
			fn, err := resolveFn(P, ref)
			if err != nil {
				fmt.Fprintln(os.Stderr, err)
				continue
			}
			r := runFunction(P, fn)
			fmt.Printf("== %s: paths=%d returns=%d obligations=%d errs=%d (%d ms)\n", fnDisplay(fn), r.paths, r.rets, len(r.obligs), len(r.errs), r.ms)
			for _, e := range r.errs {
				fmt.Println("  ERR", e)
			}
			groups := map[string]*group{}
			var order []string
			for _, o := range r.obligs {
				g := groups[o.Name]
				if g == nil {
					g = &group{name: o.Name, kind: o.Kind}
					groups[o.Name] = g
					order = append(order, o.Name)
				}
				g.obs = append(g.obs, o)
			}
			for _, n := range order {
				res := discharge(groups[n], 10, false)
				fmt.Printf("  %-12s %-10s %4dms paths=%d %s  [%s]\n", res.Result, res.Backend, res.Ms, res.Paths, n, res.Pos)
				if res.Result != "discharged" {
					if os.Getenv("GOVC_QUERY") != "" {
						fmt.Println(res.query)
					}
					fmt.Printf("      model: %v\n", res.Model)
				}
			}
			var us []string
			for u, n := range r.unmod {
				us = append(us, fmt.Sprintf("%s (%d)", u, n))
			}
			sort.Strings(us)
			for _, u := range us {
				fmt.Println("  unmodelled:", u)
			}
		}
	default:
		fmt.Fprintln(os.Stderr, "unknown command", os.Args[1])
		os.Exit(2)
	}
}
