package main

// Ghost file system (C15, C17): path-indexed content, existence and a
// "sealed" mark for names that have been renamed away. Effects of the os /
// bufio library models update it; contracts read it with fsData(p),
// fsExists(p); `assigns fs` lets a callee change it.

import (
	"fmt"
	"go/types"

	"golang.org/x/tools/go/ssa"
)

var sArrStrStr = SArr(SString, SString)
var sArrStrBool = SArr(SString, SBool)

func (x *Exec) fsGet(s *State, name string) *Term {
	if v, ok := s.ghost[name].(*Term); ok {
		return v
	}
	var srt *Sort
	switch name {
	case "fsData":
		srt = sArrStrStr
	default:
		srt = sArrStrBool
	}
	v := Var(name+"@entry", srt)
	s.ghost[name] = v
	return v
}

func (x *Exec) fsSet(s *State, name string, v *Term) {
	s.ghost[name] = v
	s.writes["ghost:fs"] = writeRec{obj: x.fsMarker()}
}

func (x *Exec) fsMarker() *Object {
	o := x.E.namedObject("ghost:fs", types.Typ[types.Int], true)
	return o
}

func (x *Exec) fsHavoc(s *State, tag string) {
	s.ghost["fsData"] = Var("fsData@"+tag, sArrStrStr)
	s.ghost["fsExists"] = Var("fsExists@"+tag, sArrStrBool)
	s.ghost["fsSealed"] = Var("fsSealed@"+tag, sArrStrBool)
	s.writes["ghost:fs"] = writeRec{obj: x.fsMarker()}
}

// fsWrite appends to the file behind a handle path; writing through a name
// that has been renamed away is the typestate violation "write after publish".
func (x *Exec) fsWrite(s *State, site ssa.Instruction, path, text *Term, what string) {
	sealed := x.fsGet(s, "fsSealed")
	x.oblige(s, "typestate", "no-write-after-rename@"+x.label(s, site), Not(Select(sealed, path)), site, what+": the file was already renamed to its final name; bytes written now change the published file in place")
	data := x.fsGet(s, "fsData")
	x.fsSet(s, "fsData", Store(data, path, Concat(Select(data, path), text)))
}

func (x *Exec) fileHandle(s *State, site ssa.Instruction, t types.Type, path *Term, nilT *Term) *PtrV {
	elem := t.(*types.Pointer).Elem()
	o := x.E.newObject(x.siteTag(site)+":file", elem)
	s.heap[o.id] = &AbsV{Typ: elem, F: map[string]Val{"path": path, "pos": Str("start")}}
	return &PtrV{Nil: nilT, Obj: o, Elem: elem}
}

// libFS handles the file-system related library calls. Returns true when handled.
func (x *Exec) libFS(s *State, site ssa.Instruction, fn *ssa.Function, name string, args []Val, k func(*State, Val)) bool {
	res := fn.Signature.Results()
	T := func(i int) *Term {
		if i < len(args) {
			if t, ok := args[i].(*Term); ok {
				return t
			}
		}
		return Var(x.siteTag(site)+".arg", SString)
	}
	switch name {
	case "os.OpenFile", "os.Create", "os.Open":
		x.used(name + ": ghost file system (create / truncate per flags; may fail without effect)")
		path := T(0)
		flags := Int(0) // os.Open: read only
		if name == "os.OpenFile" {
			flags = args[1].(*Term)
		} else if name == "os.Create" {
			flags = Int(0x242) // O_RDWR|O_CREATE|O_TRUNC
		}
		e := x.freshErr(s, site, "open.err")
		// failure: no effect
		sf := s.clone()
		if x.pathBudget() {
			sf.assume(Not(e.Nil))
			k(sf, &TupleV{E: []Val{&PtrV{Nil: TTrue, Elem: res.At(0).Type().(*types.Pointer).Elem()}, e}})
		}
		s.assume(e.Nil)
		exists := x.fsGet(s, "fsExists")
		data := x.fsGet(s, "fsData")
		if flags.Op == "int" {
			fl := flags.I.Int64()
			create := fl&0x40 != 0
			trunc := fl&0x200 != 0
			was := Select(exists, path)
			if !create {
				s.assume(was) // success without O_CREATE means the file existed
			}
			if trunc {
				data = Store(data, path, Str(""))
			} else if create {
				data = Store(data, path, Ite(was, Select(data, path), Str("")))
			}
			if create {
				exists = Store(exists, path, TTrue)
			}
			if create || trunc {
				x.fsSet(s, "fsData", data)
				x.fsSet(s, "fsExists", exists)
				x.fsSet(s, "fsSealed", Store(x.fsGet(s, "fsSealed"), path, TFalse))
			}
		} else {
			x.fsHavoc(s, x.siteTag(site))
		}
		k(s, &TupleV{E: []Val{x.fileHandle(s, site, res.At(0).Type(), path, TFalse), e}})
		return true
	case "(*os.File).WriteString", "(*os.File).Write":
		x.used(name + ": appends to the ghost content of the file (a failing write appends a prefix)")
		x.recvNonNil(s, site, args[0], name)
		path := x.absGet(s, args[0], "path")
		var text *Term
		if t, ok := args[1].(*Term); ok {
			text = t
		} else if sv, ok := args[1].(*SliceV); ok {
			text = x.E.sliceBytes(s, sv)
		} else {
			text = x.freshStr(s, site, "wtext")
		}
		e := x.freshErr(s, site, "write.err")
		written := x.freshStr(s, site, "written")
		s.assume(Implies(e.Nil, Eq(written, text)))
		s.assume(Implies(Not(e.Nil), And(StrPrefixOf(written, text), Lt(StrLen(written), StrLen(text)))))
		x.fsWrite(s, site, path, written, name)
		k(s, &TupleV{E: []Val{StrLen(written), e}})
		return true
	case "(*os.File).Seek":
		x.used(name + ": Seek(0, io.SeekEnd) positions the handle at the end of the file")
		x.recvNonNil(s, site, args[0], name)
		e := x.freshErr(s, site, "seek.err")
		off, wh := args[1].(*Term), args[2].(*Term)
		cur := x.absGet(s, args[0], "pos")
		np := Ite(And(e.Nil, Eq(off, Int(0)), Eq(wh, Int(2))), Str("end"), Ite(And(e.Nil, Eq(wh, Int(1)), Eq(off, Int(0))), cur, Ite(e.Nil, Str("other"), cur)))
		x.absSet(s, args[0], "pos", np)
		k(s, &TupleV{E: []Val{x.freshInt(s, site, "offset"), e}})
		return true
	case "bufio.NewReader":
		x.used(name + ": the reader's source is the gzip decoder, the zstd decoder or the file itself")
		elem := res.At(0).Type().(*types.Pointer).Elem()
		o := x.E.newObject(x.siteTag(site)+":bufr", elem)
		src := x.freshStr(s, site, "src")
		if iv, ok := args[0].(*IfaceV); ok && iv.Dyn != nil {
			switch typeName(iv.Dyn) {
			case "*gzip.Reader":
				src = Str("gzip")
			case "*os.File":
				src = Str("raw")
			}
		} else if iv, ok := args[0].(*IfaceV); ok && iv.Opaque != nil {
			// a reader obtained from a decompressor constructor
			src = UF("ufs_reader_kind", SString, iv.Opaque)
		}
		s.heap[o.id] = &AbsV{Typ: elem, F: map[string]Val{"src": src}}
		k(s, &PtrV{Nil: TFalse, Obj: o, Elem: elem})
		return true
	case "github.com/DataDog/zstd.NewReader":
		x.used(name + ": zstd decoder over the file")
		id := x.freshInt(s, site, "zstd$id")
		s.assume(Eq(UF("ufs_reader_kind", SString, id), Str("zstd")))
		k(s, &IfaceV{Nil: TFalse, Opaque: id, Typ: res.At(0).Type()})
		return true
	case "(*os.File).Close", "(*os.File).Sync":
		x.used(name)
		k(s, x.freshErr(s, site, "close.err"))
		return true
	case "os.Rename":
		x.used(name + ": atomically moves content and name in the ghost file system; may fail without effect")
		a, b := T(0), T(1)
		e := x.freshErr(s, site, "rename.err")
		sf := s.clone()
		if x.pathBudget() {
			sf.assume(Not(e.Nil))
			k(sf, e)
		}
		s.assume(e.Nil)
		exists := x.fsGet(s, "fsExists")
		data := x.fsGet(s, "fsData")
		s.assume(Select(exists, a))
		x.fsSet(s, "fsData", Store(data, b, Select(data, a)))
		x.fsSet(s, "fsExists", Store(Store(exists, b, TTrue), a, TFalse))
		x.fsSet(s, "fsSealed", Store(x.fsGet(s, "fsSealed"), a, TTrue))
		k(s, e)
		return true
	case "os.Remove":
		x.used(name)
		p := T(0)
		e := x.freshErr(s, site, "remove.err")
		exists := x.fsGet(s, "fsExists")
		x.fsSet(s, "fsExists", Store(exists, p, And(Select(exists, p), Not(e.Nil))))
		k(s, e)
		return true
	case "os.Stat", "os.Lstat":
		x.used(name + ": succeeds iff the path exists in the ghost file system")
		p := T(0)
		e := x.freshErr(s, site, "stat.err")
		exists := x.fsGet(s, "fsExists")
		s.assume(Eq(e.Nil, Select(exists, p)))
		s.assume(Implies(Not(e.Nil), Eq(UF("ufb_is_not_exist", SBool, e.Opaque), Not(Select(exists, p)))))
		info := &IfaceV{Nil: Not(e.Nil), Opaque: x.freshInt(s, site, "info$id"), Typ: res.At(0).Type()}
		s.assume(Eq(UF("uf_fileinfo_size", SInt, info.Opaque), StrLen(Select(x.fsGet(s, "fsData"), p))))
		if name == "os.Lstat" {
			s.assume(Eq(UF("uf_fileinfo_mode", SInt, info.Opaque), UF("uf_lstat_mode", SInt, p)))
		} else {
			s.assume(Eq(UF("uf_fileinfo_mode", SInt, info.Opaque), UF("uf_stat_mode", SInt, p)))
		}
		k(s, &TupleV{E: []Val{info, e}})
		return true
	case "os.IsNotExist":
		x.used(name)
		if iv, ok := args[0].(*IfaceV); ok && iv.Opaque != nil {
			k(s, And(Not(iv.Nil), UF("ufb_is_not_exist", SBool, iv.Opaque)))
			return true
		}
		if iv, ok := args[0].(*IfaceV); ok {
			k(s, And(Not(iv.Nil), x.freshBool(s, site, "notexist")))
			return true
		}
	// ---- bufio.Writer over a file: bytes sit in a buffer until flushed
	case "bufio.NewWriter", "bufio.NewWriterSize":
		x.used(name + ": buffered writer; buffered bytes reach the file only on Flush (or when the buffer fills)")
		elem := res.At(0).Type().(*types.Pointer).Elem()
		o := x.E.newObject(x.siteTag(site)+":bufw", elem)
		path := Var(x.siteTag(site)+".nofile", SString)
		if pv, ok := args[0].(*IfaceV); ok && pv.Dyn != nil {
			if fp, ok := pv.V.(*PtrV); ok && qualifiedTypeName(fp.Elem) == "os.File" {
				path = x.absGet(s, fp, "path")
			}
		}
		s.heap[o.id] = &AbsV{Typ: elem, F: map[string]Val{"path": path, "buffered": Str("")}}
		k(s, &PtrV{Nil: TFalse, Obj: o, Elem: elem})
		return true
	case "(*bufio.Writer).WriteString", "(*bufio.Writer).Write", "(*bufio.Writer).WriteByte":
		x.used(name)
		x.recvNonNil(s, site, args[0], name)
		var text *Term
		switch a := args[1].(type) {
		case *Term:
			if a.S == SString {
				text = a
			} else {
				text = StrFromCode(a)
			}
		case *SliceV:
			text = x.E.sliceBytes(s, a)
		default:
			text = x.freshStr(s, site, "wtext")
		}
		x.absSet(s, args[0], "buffered", Concat(x.absGet(s, args[0], "buffered"), text))
		// the buffer may spill to the file at any write
		if x.pathBudget() {
			s2 := s.clone()
			buf := x.absGet(s2, args[0], "buffered")
			x.fsWrite(s2, site, x.absGet(s2, args[0], "path"), buf, name+" (buffer spill)")
			x.absSet(s2, args[0], "buffered", Str(""))
			if name == "(*bufio.Writer).WriteByte" {
				k(s2, nilErr())
			} else {
				k(s2, &TupleV{E: []Val{StrLen(text), x.freshErr(s2, site, "bw.err")}})
			}
		}
		if name == "(*bufio.Writer).WriteByte" {
			k(s, nilErr())
		} else {
			k(s, &TupleV{E: []Val{StrLen(text), nilErr()}})
		}
		return true
	case "(*bufio.Writer).Flush":
		x.used(name)
		x.recvNonNil(s, site, args[0], name)
		buf := x.absGet(s, args[0], "buffered")
		if !(buf.Op == "str" && buf.Str == "") {
			x.fsWrite(s, site, x.absGet(s, args[0], "path"), buf, name)
		}
		x.absSet(s, args[0], "buffered", Str(""))
		k(s, x.freshErr(s, site, "flush.err"))
		return true
	}
	return false
}

// specPath coerces a spec argument to a path string; an ill-defined argument
// (a field read through a nil pointer under a false guard) becomes an
// unconstrained string.
func specPath(env *SpecEnv, v Val) *Term {
	if p, ok := env.scalar(v); ok && p != nil && p.S == SString {
		return p
	}
	env.x.E.nextObj++
	return Var(fmt.Sprintf("undefpath%d", env.x.E.nextObj), SString)
}

func init() {
	specDefs["fsData"] = func(env *SpecEnv, args []Val) Val {
		p := specPath(env, args[0])
		return Select(env.x.fsGet(env.cur(), "fsData"), p)
	}
	specDefs["fsExists"] = func(env *SpecEnv, args []Val) Val {
		p := specPath(env, args[0])
		return Select(env.x.fsGet(env.cur(), "fsExists"), p)
	}
	specDefs["fsSealed"] = func(env *SpecEnv, args []Val) Val {
		p := specPath(env, args[0])
		return Select(env.x.fsGet(env.cur(), "fsSealed"), p)
	}
	specDefs["fsUnchangedExcept"] = func(env *SpecEnv, args []Val) Val {
		// fsUnchangedExcept(p1, p2, ...): every other path has its entry content and existence
		var old *State
		if env.old != nil {
			old = env.old
		} else {
			old = newState()
		}
		q := Var("q!fs", SString)
		var ne []*Term
		for _, a := range args {
			p := specPath(env, a)
			ne = append(ne, Neq(q, p))
		}
		cur := env.cur()
		return Forall([]*Term{q}, Implies(And(ne...), And(
			Eq(Select(env.x.fsGet(cur, "fsData"), q), Select(env.x.fsGet(old, "fsData"), q)),
			Eq(Select(env.x.fsGet(cur, "fsExists"), q), Select(env.x.fsGet(old, "fsExists"), q)))))
	}
}
