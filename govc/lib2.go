package main

import (
	"fmt"
	"go/types"

	"golang.org/x/tools/go/ssa"
)

// libCall2: models for os / filepath / bufio and friends.
func (x *Exec) libCall2(s *State, site ssa.Instruction, fn *ssa.Function, name string, args []Val, k func(*State, Val)) bool {
	T := func(i int) *Term {
		if i < len(args) {
			if t, ok := args[i].(*Term); ok {
				return t
			}
		}
		return Var(x.siteTag(site)+".arg", SString)
	}
	if x.libFS(s, site, fn, name, args, k) {
		return true
	}
	res := fn.Signature.Results()
	// (value, error) results where the value is an interface or pointer that
	// is non-nil exactly when the error is nil
	valueOrError := func() {
		e := x.freshErr(s, site, "err")
		var facts []*Term
		v := x.E.freshVal(res.At(0).Type(), x.siteTag(site)+".val", &facts)
		for _, f := range facts {
			s.assume(f)
		}
		switch p := v.(type) {
		case *IfaceV:
			s.assume(Eq(p.Nil, Not(e.Nil)))
		case *PtrV:
			s.assume(Eq(p.Nil, Not(e.Nil)))
		}
		k(s, &TupleV{E: []Val{v, e}})
	}
	switch name {
	case "(*os.File).Stat", "compress/gzip.NewReader":
		x.used(name + ": returns a non-nil value exactly when the error is nil")
		valueOrError()
		return true
	case "path/filepath.Glob":
		x.used(name + ": every returned path has at least as many '/'-separated parts as the pattern; error only for a malformed pattern")
		paths, arr := x.newStringSlice(s, site, "glob")
		e := x.freshErr(s, site, "glob.err")
		i := Var("i!g", SInt)
		s.assume(Forall([]*Term{i}, Implies(And(Ge(i, Int(0)), Lt(i, paths.Len)), Ge(UF("uf_strcount", SInt, Select(arr, i), Str("/")), UF("uf_strcount", SInt, T(0), Str("/"))))))
		s.assume(Implies(Not(e.Nil), Eq(paths.Len, Int(0))))
		k(s, &TupleV{E: []Val{paths, e}})
		return true
	case "path/filepath.Abs", "path/filepath.EvalSymlinks":
		// deterministic functions of the path (and of the file system state, which
		// is not modelled as changing during one permission check)
		fnm := "ufs_abs"
		if name == "path/filepath.EvalSymlinks" {
			fnm = "ufs_evalsymlinks"
		}
		x.used(name + ": " + fnm + "(path), or an error")
		e := x.freshErr(s, site, "path.err")
		k(s, &TupleV{E: []Val{Ite(e.Nil, UF(fnm, SString, T(0)), Str("")), e}})
		return true
	case "path/filepath.Clean", "path/filepath.Base", "path/filepath.Dir":
		x.used(name)
		k(s, x.freshResult(s, site, res))
		return true
	case "(io/fs.FileMode).IsRegular", "(os.FileMode).IsRegular":
		x.used(name + ": ufb_mode_regular(mode)")
		k(s, UF("ufb_mode_regular", SBool, args[0].(*Term)))
		return true
	case "os.ReadFile", "os.Getpid":
		x.used(name + " (no effect on verified state)")
		k(s, x.freshResult(s, site, res))
		return true
	case "bufio.NewScanner":
		// A line scanner over a file of the ghost file system. consumed: the text
		// of the file read so far; line: the current token; failed: the scan ended
		// with an error (what Err() reports).
		x.used(name + ": line scanner over the ghost file (path), nothing consumed yet")
		elem := res.At(0).Type().(*types.Pointer).Elem()
		o := x.E.newObject(x.siteTag(site)+":scanner", elem)
		path := x.freshStr(s, site, "scan.path")
		if iv, ok := args[0].(*IfaceV); ok && iv.Dyn != nil && typeName(iv.Dyn) == "*os.File" {
			if pv, ok := iv.V.(*PtrV); ok && pv.Obj != nil {
				path = x.absGet(s, pv, "path")
			}
		}
		s.heap[o.id] = &AbsV{Typ: elem, F: map[string]Val{"path": path, "consumed": Str(""), "line": Str(""), "failed": TFalse}}
		k(s, &PtrV{Nil: TFalse, Obj: o, Elem: elem})
		return true
	case "(*bufio.Scanner).Scan":
		x.used(name + ": either the next line (text up to a newline, or the unterminated rest) becomes the token, or the scan ends: at the end of the file, or with an error (token too long, read error) wherever it is")
		x.recvNonNil(s, site, args[0], name)
		pv, _ := args[0].(*PtrV)
		a, isAbs := x.load(s, pv).(*AbsV)
		if !isAbs {
			k(s, x.freshResult(s, site, res))
			return true
		}
		path, consumed := a.F["path"].(*Term), a.F["consumed"].(*Term)
		failed0, _ := a.F["failed"].(*Term)
		ok := Var(x.siteTag(site)+".scan.ok", SBool)
		fail := Var(x.siteTag(site)+".scan.fail", SBool)
		// raw: the bytes of the line in the file; the token is raw without one
		// trailing carriage return (bufio.ScanLines)
		raw := x.freshStr(s, site, "scan.raw")
		L := Ite(StrSuffixOf(Str("\r"), raw), Substr(raw, Int(0), Sub(StrLen(raw), Int(1))), raw)
		data := Select(x.fsGet(s, "fsData"), path)
		withNL := Concat(consumed, raw, Str("\n"))
		s.assume(Implies(ok, And(Not(StrContains(raw, Str("\n"))), Or(StrPrefixOf(withNL, data), And(Eq(data, Concat(consumed, raw)), Gt(StrLen(raw), Int(0)))))))
		s.assume(Implies(And(Not(ok), Not(fail)), Eq(data, consumed)))
		s.assume(Implies(failed0, Not(ok))) // a failed scanner stays stopped
		na := &AbsV{Typ: a.Typ, F: map[string]Val{
			"path":     path,
			"consumed": Ite(ok, Ite(StrPrefixOf(withNL, data), withNL, Concat(consumed, raw)), consumed),
			"line":     Ite(ok, L, Str("")),
			"failed":   Ite(ok, failed0, Or(failed0, fail)),
		}}
		x.store(s, pv, na)
		k(s, ok)
		return true
	case "(*bufio.Scanner).Text":
		x.used(name + ": the current token")
		x.recvNonNil(s, site, args[0], name)
		if pv, ok := args[0].(*PtrV); ok {
			if a, ok := x.load(s, pv).(*AbsV); ok {
				k(s, a.F["line"].(*Term))
				return true
			}
		}
		k(s, x.freshResult(s, site, res))
		return true
	case "(*bufio.Scanner).Err":
		x.used(name + ": non-nil iff the scan ended with an error")
		x.recvNonNil(s, site, args[0], name)
		e := x.freshErr(s, site, "scan.err")
		if pv, ok := args[0].(*PtrV); ok {
			if a, ok := x.load(s, pv).(*AbsV); ok {
				s.assume(Eq(e.Nil, Not(a.F["failed"].(*Term))))
			}
		}
		k(s, e)
		return true
	case "(*bufio.Reader).ReadByte":
		x.used(name + ": returns the next byte or an error")
		b := x.freshInt(s, site, "byte")
		s.assume(And(Ge(b, Int(0)), Le(b, Int(255))))
		k(s, &TupleV{E: []Val{b, x.freshErr(s, site, "rb.err")}})
		return true
	case "(*bufio.Reader).ReadString":
		x.used(name)
		k(s, x.freshResult(s, site, res))
		return true
	case "(io/fs.FileMode).IsDir":
		x.used(name)
		k(s, x.freshResult(s, site, res))
		return true
	case "(*golang.org/x/crypto/ssh.ServerConfig).AddHostKey", "golang.org/x/crypto/ssh.ParsePrivateKey", "golang.org/x/crypto/ssh.DiscardRequests", "golang.org/x/crypto/ssh.NewServerConn", "golang.org/x/crypto/ssh.Unmarshal":
		x.used(name + " (no effect on verified state)")
		k(s, x.freshResult(s, site, res))
		return true
	case "os.Getwd":
		x.used(name + ": ufs_getwd() or an error")
		e := x.freshErr(s, site, "getwd.err")
		k(s, &TupleV{E: []Val{Ite(e.Nil, UF("ufs_getwd", SString, Int(0)), Str("")), e}})
		return true
	case "os/user.Lookup":
		// a non-nil *User with HomeDir = ufs_homedir(name), or an error
		x.used(name + ": a user whose HomeDir is ufs_homedir(name), or an error")
		r := x.freshResult(s, site, res)
		if tv, ok := r.(*TupleV); ok && len(tv.E) == 2 {
			if pv, ok := tv.E[0].(*PtrV); ok && pv.Obj != nil {
				if ev, ok := tv.E[1].(*IfaceV); ok {
					s.assume(Implies(ev.Nil, Not(pv.Nil)))
				}
				if sv, ok := x.load(s, pv).(*StructV); ok {
					if st, ok := under(sv.Typ).(*types.Struct); ok {
						for i := 0; i < st.NumFields(); i++ {
							if st.Field(i).Name() == "HomeDir" {
								if ht, ok := sv.F[i].(*Term); ok {
									s.assume(Eq(ht, UF("ufs_homedir", SString, T(0))))
								}
							}
						}
					}
				}
			}
		}
		k(s, r)
		return true
	case "golang.org/x/crypto/ssh.Dial", "(*golang.org/x/crypto/ssh.Client).NewSession":
		x.used(name + ": a non-nil result unless it fails (the host key callback of the configuration is asked before Dial succeeds: library behaviour, trusted)")
		r := x.freshResult(s, site, res)
		if tv, ok := r.(*TupleV); ok && len(tv.E) == 2 {
			if pv, ok := tv.E[0].(*PtrV); ok {
				if ev, ok := tv.E[1].(*IfaceV); ok {
					s.assume(Implies(ev.Nil, Not(pv.Nil)))
				}
			}
		}
		k(s, r)
		return true
	case "golang.org/x/crypto/ssh/knownhosts.New":
		x.used(name + ": a non-nil callback unless it fails")
		e := x.freshErr(s, site, "kh.err")
		id := x.freshInt(s, site, "kh.cb$id")
		s.assume(Implies(e.Nil, Not(Eq(id, Int(0)))))
		sig, _ := under(res.At(0).Type()).(*types.Signature)
		k(s, &TupleV{E: []Val{&FuncV{Nil: Eq(id, Int(0)), Opaque: id, Sig: sig}, e}})
		return true
	case "golang.org/x/crypto/ssh/knownhosts.Line":
		// Line(addresses, key): a deterministic function of the first address and the key
		x.used(name + ": ufs_khline(first address, key)")
		addr := Str("")
		if sv, ok := args[0].(*SliceV); ok && sv.Obj != nil {
			addr = Select(x.E.objVal(s, sv.Obj).(*ArrV).T, sv.Off)
		}
		keyID := Int(0)
		if iv, ok := args[1].(*IfaceV); ok && iv.Opaque != nil {
			keyID = iv.Opaque
		}
		r := UF("ufs_khline", SString, addr, keyID)
		s.assume(Not(StrContains(r, Str("\n"))))
		k(s, r)
		return true
	case "golang.org/x/crypto/ssh/knownhosts.Normalize":
		x.used(name + ": ufs_khnormalize(address)")
		k(s, UF("ufs_khnormalize", SString, T(0)))
		return true
	case "golang.org/x/crypto/ssh.ParseAuthorizedKey":
		// ParseAuthorizedKey(in) skips blank, comment and unparsable lines and
		// returns the first key it finds, or an error iff no key is left.
		x.used(name + ": returns the first key of the remaining input and the bytes after its line; errs iff the remaining input contains no key; comments / blank / unparsable lines are skipped")
		var in *Term
		if sv, ok := args[0].(*SliceV); ok {
			in = x.E.sliceBytes(s, sv)
		} else {
			in = x.freshStr(s, site, "in")
		}
		has := UF("ufb_ak_haskey", SBool, in)
		first := UF("ufs_ak_first", SString, in)
		rest := UF("ufs_ak_rest", SString, in)
		s.assume(Implies(Eq(StrLen(in), Int(0)), Not(has)))
		s.assume(Implies(has, Lt(StrLen(rest), StrLen(in))))
		// definition of "key K is listed in file F", unfolded at this input
		K := Var("K!ak", SString)
		s.assume(Forall([]*Term{K}, Eq(UF("ufb_ak_listed", SBool, in, K), And(has, Or(Eq(first, K), UF("ufb_ak_listed", SBool, rest, K))))))
		e := x.freshErr(s, site, "pak.err")
		s.assume(Eq(e.Nil, has))
		keyID := x.freshInt(s, site, "key$id")
		s.assume(Eq(UF("ufs_key_marshal", SString, keyID), first))
		key := &IfaceV{Nil: Not(has), Opaque: keyID, Typ: res.At(0).Type()}
		o := x.E.storeObject(x.siteTag(site)+":rest", types.NewArray(types.Typ[types.Byte], 0), false, "arr")
		s.heap[o.id] = &ArrV{Elem: types.Typ[types.Byte], IsStr: true, T: rest}
		restV := &SliceV{Nil: TFalse, Obj: o, Off: Int(0), Len: StrLen(rest), Cap: StrLen(rest), Elem: types.Typ[types.Byte]}
		var facts []*Term
		opts := x.E.freshVal(res.At(2).Type(), x.siteTag(site)+".opts", &facts)
		for _, f := range facts {
			s.assume(f)
		}
		k(s, &TupleV{E: []Val{key, x.freshStr(s, site, "comment"), opts, restV, e}})
		return true
	case "golang.org/x/crypto/ssh.FingerprintSHA256":
		x.used(name)
		k(s, x.freshStr(s, site, "fp"))
		return true
	case "net.LookupIP":
		// every returned address is one the host name resolves to
		x.used(name + ": every returned IP is an address of the host (ufb_resolves)")
		r := x.freshResult(s, site, res).(*TupleV)
		if sv, ok := r.E[0].(*SliceV); ok && sv.Obj != nil {
			av := x.E.objVal(s, sv.Obj).(*ArrV)
			i := Var("i!ip", SInt)
			s.assume(Forall([]*Term{i}, Implies(And(Ge(i, Int(0)), Lt(i, sv.Len)), UF("ufb_resolves", SBool, T(0), UF("ufs_ipstr", SString, Select(av.T, i))))))
		}
		k(s, r)
		return true
	case "(net.IP).String":
		x.used(name + ": textual form of the address (ufs_ipstr)")
		if sv, ok := args[0].(*SliceV); ok {
			k(s, UF("ufs_ipstr", SString, x.E.sliceBytes(s, sv)))
			return true
		}
		k(s, x.freshResult(s, site, res))
		return true
	}
	_ = types.Typ
	return false
}

func init() {
	// akListed(F, K): key K (wire encoding) is listed in authorized-keys text F.
	// Base case of the definition; the recursive case is unfolded by the
	// ParseAuthorizedKey model at each input it is called on.
	specDefs["akListed"] = func(env *SpecEnv, args []Val) Val {
		f, ok1 := env.scalar(args[0])
		k, ok2 := env.scalar(args[1])
		if !ok1 || !ok2 {
			env.errf("akListed needs (bytes, string)")
			return TFalse
		}
		K := Var("K!akb", SString)
		env.s.assume(Forall([]*Term{K}, Not(UF("ufb_ak_listed", SBool, Str(""), K))))
		return UF("ufb_ak_listed", SBool, f, k)
	}
}

func init() {
	// reSel(r, s): does regex value r select the line content s
	// (Noop: always; Default: RE2 match; Invert: no match; otherwise never).
	specDefs["reSel"] = func(env *SpecEnv, args []Val) Val {
		rv := args[0]
		if pv, ok := rv.(*PtrV); ok {
			rv = env.deref(pv)
		}
		sv, ok := rv.(*StructV)
		if !ok {
			env.errf("reSel: first argument is not a Regex (%T)", rv)
			return TFalse
		}
		subj, ok := env.scalar(args[1])
		if !ok {
			env.errf("reSel: second argument is not a string")
			return TFalse
		}
		flags := env.selectField(sv, "flags", nil)
		fl, _ := flags.(*SliceV)
		if fl == nil || fl.Obj == nil {
			return TFalse
		}
		av := env.x.E.objVal(env.cur(), fl.Obj).(*ArrV)
		f0 := Select(av.T, fl.Off)
		pat := Var("nopattern", SString)
		if rp, ok := env.selectField(sv, "re", nil).(*PtrV); ok && rp.Obj != nil {
			if a, ok := env.deref(rp).(*AbsV); ok {
				pat = a.F["pattern"].(*Term)
			}
		}
		m := UF("re_match", SBool, pat, subj)
		// Flag values: Default=1 Invert=2 Noop=3
		return Ite(Eq(f0, Int(3)), TTrue, Ite(Eq(f0, Int(1)), m, Ite(Eq(f0, Int(2)), Not(m), TFalse)))
	}
}

func init() {
	// frame(s): the byte stream s cut into messages the way the client does it:
	// every 0xAC is replaced by the record separator 0x1e and every "\n" is
	// kept and followed by 0x1e. Defined by recursion on the last byte:
	//   frame("") = "",  frame(s ++ c) = frame(s) ++ enc(c).
	// The engine supplies the instance of this definition for each argument of
	// the shape x[0:n] it evaluates (no quantifier reaches the solver).
	specDefs["frame"] = func(env *SpecEnv, args []Val) Val {
		sArg, ok := env.scalar(args[0])
		if !ok {
			env.errf("frame needs a byte string")
			return Str("")
		}
		enc := func(c *Term) *Term {
			return Ite(Eq(c, Str("\n")), Str("\n\x1e"), Ite(Eq(c, Str("\xac")), Str("\x1e"), c))
		}
		fr := func(t *Term) *Term {
			if t.Op == "str" && t.Str == "" {
				return Str("")
			}
			return UF("ufs_frame", SString, t)
		}
		st := env.s
		st.assume(Eq(UF("ufs_frame", SString, Str("")), Str("")))
		if sArg.Op == "str.substr" && sArg.Args[1].Op == "int" && sArg.Args[1].I.Sign() == 0 {
			x, n := sArg.Args[0], sArg.Args[2]
			prev := Substr(x, Int(0), Sub(n, Int(1)))
			st.assume(Implies(And(Gt(n, Int(0)), Le(n, StrLen(x))), Eq(fr(sArg), Concat(fr(prev), enc(StrAt(x, Sub(n, Int(1))))))))
			st.assume(Implies(Le(n, Int(0)), Eq(fr(sArg), Str(""))))
		}
		return fr(sArg)
	}
}

// joinSpTerm: Join(x, " ") of a []string slice value as an uninterpreted
// function of (backing array, offset, length), with its defining unfolding
// supplied for `depth` leading elements (no quantifier reaches the solver):
//
//	joinSp(x) = ""                          if len(x) == 0
//	joinSp(x) = x[0]                        if len(x) == 1
//	joinSp(x) = x[0] ++ " " ++ joinSp(x[1:]) otherwise
func (x *Exec) joinSpTerm(s *State, sv *SliceV, depth int) *Term {
	return x.joinSepTerm(s, sv, " ", depth)
}

// joinSepTerm: strings.Join(x, sep) for a literal separator, as joinSpTerm.
func (x *Exec) joinSepTerm(s *State, sv *SliceV, sep string, depth int) *Term {
	var arr *Term
	if sv.Obj != nil {
		arr = x.E.objVal(s, sv.Obj).(*ArrV).T
	} else {
		arr = ConstArr(SArr(SInt, SString), Str(""))
	}
	var mk func(off, ln *Term, d int) *Term
	mk = func(off, ln *Term, d int) *Term {
		ufName := "ufs_joinsp"
		if sep != " " {
			ufName = fmt.Sprintf("ufs_join_%x", sep)
		}
		t := UF(ufName, SString, arr, off, ln)
		s.assume(Implies(Le(ln, Int(0)), Eq(t, Str(""))))
		s.assume(Implies(Eq(ln, Int(1)), Eq(t, Select(arr, off))))
		if d > 0 {
			rest := mk(Add(off, Int(1)), Sub(ln, Int(1)), d-1)
			s.assume(Implies(Ge(ln, Int(2)), Eq(t, Concat(Select(arr, off), Str(sep), rest))))
		}
		return t
	}
	return mk(sv.Off, sv.Len, depth)
}

func init() {
	// join(parts, "sep"): strings.Join(parts, sep) for a literal separator
	specDefs["join"] = func(env *SpecEnv, args []Val) Val {
		sv, ok := args[0].(*SliceV)
		sep, ok2 := args[1].(*Term)
		if !ok || !ok2 || sep.Op != "str" || sep.Str == "" {
			env.errf("join(parts, \"literal separator\")")
			return Str("")
		}
		st := env.cur()
		if o := sv.Obj; o != nil && o.splitOf != nil && o.splitSep == sep.Str {
			whole := &SliceV{Nil: TFalse, Obj: o, Off: Int(0), Len: o.splitLen, Cap: o.splitLen, Elem: sv.Elem}
			st.assume(Eq(env.x.joinSepTerm(st, whole, sep.Str, 3), o.splitOf))
		}
		return env.x.joinSepTerm(st, sv, sep.Str, 3)
	}
	specDefs["joinSp"] = func(env *SpecEnv, args []Val) Val {
		sv, ok := args[0].(*SliceV)
		if !ok {
			env.errf("joinSp needs a []string")
			return Str("")
		}
		return env.x.joinSpTerm(env.s, sv, 3)
	}
}

func init() {
	// regex flags: Default=1 Invert=2 Noop=3
	specDefs["flagName"] = func(env *SpecEnv, args []Val) Val {
		f, _ := env.scalar(args[0])
		return Ite(Eq(f, Int(1)), Str("default"), Ite(Eq(f, Int(2)), Str("invert"), Ite(Eq(f, Int(3)), Str("noop"), Str("undefined"))))
	}
	specDefs["isFlagName"] = func(env *SpecEnv, args []Val) Val {
		n, _ := env.scalar(args[0])
		return Or(Eq(n, Str("default")), Eq(n, Str("invert")), Eq(n, Str("noop")))
	}
	specDefs["flagOf"] = func(env *SpecEnv, args []Val) Val {
		n, _ := env.scalar(args[0])
		return Ite(Eq(n, Str("default")), Int(1), Ite(Eq(n, Str("invert")), Int(2), Ite(Eq(n, Str("noop")), Int(3), Int(0))))
	}
}

func init() {
	// Permission rules (C08). A rule applies to permission type T if it is
	// prefixed "T:" (then its body is the rest) or bare (then its body is the
	// rule itself); a body starting with '!' is a deny pattern. The verdict over
	// the first k rules: the last rule whose pattern matches the path decides,
	// no match means deny. Defined by recursion on k; the engine supplies the
	// unfolding for each k it evaluates.
	// The type of a rule is the text in front of its first ':' if that text is a
	// permission type name (ufb_typename: a non-empty lower case word, defined
	// by isPermissionType's contract), else "readfiles" (a bare rule, whose ':'
	// characters, if any, belong to the regex). The body is the rest.
	ruleParts := func(st *State, r, ptype *Term) (applies, neg, rx *Term) {
		idx := StrIndexOf(r, Str(":"), Int(0))
		tp := Substr(r, Int(0), idx)
		typed := And(Gt(idx, Int(0)), UF("ufb_typename", SBool, tp))
		applies = Eq(Ite(typed, tp, Str("readfiles")), ptype)
		body := Ite(typed, Substr(r, Add(idx, Int(1)), Sub(StrLen(r), Add(idx, Int(1)))), r)
		neg = StrPrefixOf(Str("!"), body)
		rx = Ite(neg, Substr(body, Int(1), Sub(StrLen(body), Int(1))), body)
		return
	}
	// typeName(s): s is a non-empty lower case word. An uninterpreted predicate
	// with its defining axiom supplied for every s it is evaluated on.
	// matches(re, s): the *regexp.Regexp re matches s (the re_match relation the
	// model of MatchString uses, over the pattern re was compiled from)
	specDefs["matches"] = func(env *SpecEnv, args []Val) Val {
		subj, ok := env.scalar(args[1])
		if !ok {
			env.errf("matches(re, s)")
			return TFalse
		}
		return UF("re_match", SBool, env.x.absGet(env.cur(), args[0], "pattern"), subj)
	}
	specDefs["typeName"] = func(env *SpecEnv, args []Val) Val {
		t, ok := env.scalar(args[0])
		if !ok {
			env.errf("typeName(s)")
			return TFalse
		}
		env.x.E.nextObj++
		j := Var(fmt.Sprintf("j!tn%d", env.x.E.nextObj), SInt)
		c := app("str.to_code", SInt, StrAt(t, j))
		def := And(Gt(StrLen(t), Int(0)), Forall([]*Term{j}, Implies(And(Le(Int(0), j), Lt(j, StrLen(t))), And(Ge(c, Int(97)), Le(c, Int(122))))))
		u := UF("ufb_typename", SBool, t)
		env.s.assume(Eq(u, def))
		return u
	}
	specDefs["permVerdict"] = func(env *SpecEnv, args []Val) Val {
		sv, ok := args[0].(*SliceV)
		k, ok2 := env.scalar(args[1])
		path, ok3 := env.scalar(args[2])
		ptype, ok4 := env.scalar(args[3])
		if !ok || !ok2 || !ok3 || !ok4 || sv.Obj == nil {
			env.errf("permVerdict(rules, k, path, type)")
			return TFalse
		}
		arr := env.x.E.objVal(env.cur(), sv.Obj).(*ArrV).T
		V := func(k *Term) *Term { return UF("ufb_permverdict", SBool, arr, sv.Off, k, path, ptype) }
		st := env.s
		r := Select(arr, Add(sv.Off, Sub(k, Int(1))))
		applies, neg, rx := ruleParts(st, r, ptype)
		m := And(applies, UF("re_match", SBool, rx, path))
		st.assume(Implies(Le(k, Int(0)), Not(V(k))))
		st.assume(Implies(Gt(k, Int(0)), Eq(V(k), Ite(m, Not(neg), V(Sub(k, Int(1)))))))
		return V(k)
	}
}
