package main

import (
	"go/types"

	"golang.org/x/tools/go/ssa"
)

// libCall2: models for os / filepath / bufio and friends.
func (x *Exec) libCall2(s *State, site ssa.Instruction, fn *ssa.Function, name string, args []Val, k func(*State, Val)) bool {
	T := func(i int) *Term {
		if i < len(args) {
			if t, ok := args[i].(*Term); ok {
				return t
			}
		}
		return Var(x.siteTag(site)+".arg", SString)
	}
	if x.libFS(s, site, fn, name, args, k) {
		return true
	}
	res := fn.Signature.Results()
	// (value, error) results where the value is an interface or pointer that
	// is non-nil exactly when the error is nil
	valueOrError := func() {
		e := x.freshErr(s, site, "err")
		var facts []*Term
		v := x.E.freshVal(res.At(0).Type(), x.siteTag(site)+".val", &facts)
		for _, f := range facts {
			s.assume(f)
		}
		switch p := v.(type) {
		case *IfaceV:
			s.assume(Eq(p.Nil, Not(e.Nil)))
		case *PtrV:
			s.assume(Eq(p.Nil, Not(e.Nil)))
		}
		k(s, &TupleV{E: []Val{v, e}})
	}
	switch name {
	case "(*os.File).Stat", "compress/gzip.NewReader":
		x.used(name + ": returns a non-nil value exactly when the error is nil")
		valueOrError()
		return true
	case "path/filepath.Glob":
		x.used(name + ": every returned path has at least as many '/'-separated parts as the pattern; error only for a malformed pattern")
		paths, arr := x.newStringSlice(s, site, "glob")
		e := x.freshErr(s, site, "glob.err")
		i := Var("i!g", SInt)
		s.assume(Forall([]*Term{i}, Implies(And(Ge(i, Int(0)), Lt(i, paths.Len)), Ge(UF("uf_strcount", SInt, Select(arr, i), Str("/")), UF("uf_strcount", SInt, T(0), Str("/"))))))
		s.assume(Implies(Not(e.Nil), Eq(paths.Len, Int(0))))
		k(s, &TupleV{E: []Val{paths, e}})
		return true
	case "path/filepath.Clean", "path/filepath.Abs", "path/filepath.EvalSymlinks", "path/filepath.Base", "path/filepath.Dir":
		x.used(name)
		k(s, x.freshResult(s, site, res))
		return true
	case "os.ReadFile", "os.Getpid":
		x.used(name + " (no effect on verified state)")
		k(s, x.freshResult(s, site, res))
		return true
	case "bufio.NewScanner":
		x.used(name + ": returns a non-nil reader")
		var facts []*Term
		v := x.E.freshVal(res.At(0).Type(), x.siteTag(site)+".rd", &facts)
		switch p := v.(type) {
		case *PtrV:
			s.assume(Not(p.Nil))
		case *IfaceV:
			s.assume(Not(p.Nil))
		}
		k(s, v)
		return true
	case "(*bufio.Reader).ReadByte":
		x.used(name + ": returns the next byte or an error")
		b := x.freshInt(s, site, "byte")
		s.assume(And(Ge(b, Int(0)), Le(b, Int(255))))
		k(s, &TupleV{E: []Val{b, x.freshErr(s, site, "rb.err")}})
		return true
	case "(*bufio.Scanner).Scan", "(*bufio.Scanner).Text", "(*bufio.Scanner).Err", "(*bufio.Reader).ReadString":
		x.used(name)
		k(s, x.freshResult(s, site, res))
		return true
	case "(os.FileMode).IsRegular", "(io/fs.FileMode).IsRegular", "(io/fs.FileMode).IsDir":
		x.used(name)
		k(s, x.freshResult(s, site, res))
		return true
	case "(*golang.org/x/crypto/ssh.ServerConfig).AddHostKey", "golang.org/x/crypto/ssh.ParsePrivateKey", "golang.org/x/crypto/ssh.DiscardRequests", "golang.org/x/crypto/ssh.NewServerConn", "golang.org/x/crypto/ssh.Unmarshal":
		x.used(name + " (no effect on verified state)")
		k(s, x.freshResult(s, site, res))
		return true
	case "golang.org/x/crypto/ssh.ParseAuthorizedKey":
		// ParseAuthorizedKey(in) skips blank, comment and unparsable lines and
		// returns the first key it finds, or an error iff no key is left.
		x.used(name + ": returns the first key of the remaining input and the bytes after its line; errs iff the remaining input contains no key; comments / blank / unparsable lines are skipped")
		var in *Term
		if sv, ok := args[0].(*SliceV); ok {
			in = x.E.sliceBytes(s, sv)
		} else {
			in = x.freshStr(s, site, "in")
		}
		has := UF("ufb_ak_haskey", SBool, in)
		first := UF("ufs_ak_first", SString, in)
		rest := UF("ufs_ak_rest", SString, in)
		s.assume(Implies(Eq(StrLen(in), Int(0)), Not(has)))
		s.assume(Implies(has, Lt(StrLen(rest), StrLen(in))))
		// definition of "key K is listed in file F", unfolded at this input
		K := Var("K!ak", SString)
		s.assume(Forall([]*Term{K}, Eq(UF("ufb_ak_listed", SBool, in, K), And(has, Or(Eq(first, K), UF("ufb_ak_listed", SBool, rest, K))))))
		e := x.freshErr(s, site, "pak.err")
		s.assume(Eq(e.Nil, has))
		keyID := x.freshInt(s, site, "key$id")
		s.assume(Eq(UF("ufs_key_marshal", SString, keyID), first))
		key := &IfaceV{Nil: Not(has), Opaque: keyID, Typ: res.At(0).Type()}
		o := x.E.storeObject(x.siteTag(site)+":rest", types.NewArray(types.Typ[types.Byte], 0), false, "arr")
		s.heap[o.id] = &ArrV{Elem: types.Typ[types.Byte], IsStr: true, T: rest}
		restV := &SliceV{Nil: TFalse, Obj: o, Off: Int(0), Len: StrLen(rest), Cap: StrLen(rest), Elem: types.Typ[types.Byte]}
		var facts []*Term
		opts := x.E.freshVal(res.At(2).Type(), x.siteTag(site)+".opts", &facts)
		for _, f := range facts {
			s.assume(f)
		}
		k(s, &TupleV{E: []Val{key, x.freshStr(s, site, "comment"), opts, restV, e}})
		return true
	case "golang.org/x/crypto/ssh.FingerprintSHA256":
		x.used(name)
		k(s, x.freshStr(s, site, "fp"))
		return true
	case "net.LookupIP":
		// every returned address is one the host name resolves to
		x.used(name + ": every returned IP is an address of the host (ufb_resolves)")
		r := x.freshResult(s, site, res).(*TupleV)
		if sv, ok := r.E[0].(*SliceV); ok && sv.Obj != nil {
			av := x.E.objVal(s, sv.Obj).(*ArrV)
			i := Var("i!ip", SInt)
			s.assume(Forall([]*Term{i}, Implies(And(Ge(i, Int(0)), Lt(i, sv.Len)), UF("ufb_resolves", SBool, T(0), UF("ufs_ipstr", SString, Select(av.T, i))))))
		}
		k(s, r)
		return true
	case "(net.IP).String":
		x.used(name + ": textual form of the address (ufs_ipstr)")
		if sv, ok := args[0].(*SliceV); ok {
			k(s, UF("ufs_ipstr", SString, x.E.sliceBytes(s, sv)))
			return true
		}
		k(s, x.freshResult(s, site, res))
		return true
	}
	_ = types.Typ
	return false
}

func init() {
	// akListed(F, K): key K (wire encoding) is listed in authorized-keys text F.
	// Base case of the definition; the recursive case is unfolded by the
	// ParseAuthorizedKey model at each input it is called on.
	specDefs["akListed"] = func(env *SpecEnv, args []Val) Val {
		f, ok1 := env.scalar(args[0])
		k, ok2 := env.scalar(args[1])
		if !ok1 || !ok2 {
			env.errf("akListed needs (bytes, string)")
			return TFalse
		}
		K := Var("K!akb", SString)
		env.s.assume(Forall([]*Term{K}, Not(UF("ufb_ak_listed", SBool, Str(""), K))))
		return UF("ufb_ak_listed", SBool, f, k)
	}
}

func init() {
	// reSel(r, s): does regex value r select the line content s
	// (Noop: always; Default: RE2 match; Invert: no match; otherwise never).
	specDefs["reSel"] = func(env *SpecEnv, args []Val) Val {
		rv := args[0]
		if pv, ok := rv.(*PtrV); ok {
			rv = env.deref(pv)
		}
		sv, ok := rv.(*StructV)
		if !ok {
			env.errf("reSel: first argument is not a Regex (%T)", rv)
			return TFalse
		}
		subj, ok := env.scalar(args[1])
		if !ok {
			env.errf("reSel: second argument is not a string")
			return TFalse
		}
		flags := env.selectField(sv, "flags", nil)
		fl, _ := flags.(*SliceV)
		if fl == nil || fl.Obj == nil {
			return TFalse
		}
		av := env.x.E.objVal(env.cur(), fl.Obj).(*ArrV)
		f0 := Select(av.T, fl.Off)
		pat := Var("nopattern", SString)
		if rp, ok := env.selectField(sv, "re", nil).(*PtrV); ok && rp.Obj != nil {
			if a, ok := env.deref(rp).(*AbsV); ok {
				pat = a.F["pattern"].(*Term)
			}
		}
		m := UF("re_match", SBool, pat, subj)
		// Flag values: Default=1 Invert=2 Noop=3
		return Ite(Eq(f0, Int(3)), TTrue, Ite(Eq(f0, Int(1)), m, Ite(Eq(f0, Int(2)), Not(m), TFalse)))
	}
}

func init() {
	// frame(s): the byte stream s cut into messages the way the client does it:
	// every 0xAC is replaced by the record separator 0x1e and every "\n" is
	// kept and followed by 0x1e. Defined by recursion on the last byte:
	//   frame("") = "",  frame(s ++ c) = frame(s) ++ enc(c).
	// The engine supplies the instance of this definition for each argument of
	// the shape x[0:n] it evaluates (no quantifier reaches the solver).
	specDefs["frame"] = func(env *SpecEnv, args []Val) Val {
		sArg, ok := env.scalar(args[0])
		if !ok {
			env.errf("frame needs a byte string")
			return Str("")
		}
		enc := func(c *Term) *Term {
			return Ite(Eq(c, Str("\n")), Str("\n\x1e"), Ite(Eq(c, Str("\xac")), Str("\x1e"), c))
		}
		fr := func(t *Term) *Term {
			if t.Op == "str" && t.Str == "" {
				return Str("")
			}
			return UF("ufs_frame", SString, t)
		}
		st := env.s
		st.assume(Eq(UF("ufs_frame", SString, Str("")), Str("")))
		if sArg.Op == "str.substr" && sArg.Args[1].Op == "int" && sArg.Args[1].I.Sign() == 0 {
			x, n := sArg.Args[0], sArg.Args[2]
			prev := Substr(x, Int(0), Sub(n, Int(1)))
			st.assume(Implies(And(Gt(n, Int(0)), Le(n, StrLen(x))), Eq(fr(sArg), Concat(fr(prev), enc(StrAt(x, Sub(n, Int(1))))))))
			st.assume(Implies(Le(n, Int(0)), Eq(fr(sArg), Str(""))))
		}
		return fr(sArg)
	}
}

// joinSpTerm: Join(x, " ") of a []string slice value as an uninterpreted
// function of (backing array, offset, length), with its defining unfolding
// supplied for `depth` leading elements (no quantifier reaches the solver):
//   joinSp(x) = ""                          if len(x) == 0
//   joinSp(x) = x[0]                        if len(x) == 1
//   joinSp(x) = x[0] ++ " " ++ joinSp(x[1:]) otherwise
func (x *Exec) joinSpTerm(s *State, sv *SliceV, depth int) *Term {
	var arr *Term
	if sv.Obj != nil {
		arr = x.E.objVal(s, sv.Obj).(*ArrV).T
	} else {
		arr = ConstArr(SArr(SInt, SString), Str(""))
	}
	var mk func(off, ln *Term, d int) *Term
	mk = func(off, ln *Term, d int) *Term {
		t := UF("ufs_joinsp", SString, arr, off, ln)
		s.assume(Implies(Le(ln, Int(0)), Eq(t, Str(""))))
		s.assume(Implies(Eq(ln, Int(1)), Eq(t, Select(arr, off))))
		if d > 0 {
			rest := mk(Add(off, Int(1)), Sub(ln, Int(1)), d-1)
			s.assume(Implies(Ge(ln, Int(2)), Eq(t, Concat(Select(arr, off), Str(" "), rest))))
		}
		return t
	}
	return mk(sv.Off, sv.Len, depth)
}

func init() {
	specDefs["joinSp"] = func(env *SpecEnv, args []Val) Val {
		sv, ok := args[0].(*SliceV)
		if !ok {
			env.errf("joinSp needs a []string")
			return Str("")
		}
		return env.x.joinSpTerm(env.s, sv, 3)
	}
}

func init() {
	// regex flags: Default=1 Invert=2 Noop=3
	specDefs["flagName"] = func(env *SpecEnv, args []Val) Val {
		f, _ := env.scalar(args[0])
		return Ite(Eq(f, Int(1)), Str("default"), Ite(Eq(f, Int(2)), Str("invert"), Ite(Eq(f, Int(3)), Str("noop"), Str("undefined"))))
	}
	specDefs["isFlagName"] = func(env *SpecEnv, args []Val) Val {
		n, _ := env.scalar(args[0])
		return Or(Eq(n, Str("default")), Eq(n, Str("invert")), Eq(n, Str("noop")))
	}
	specDefs["flagOf"] = func(env *SpecEnv, args []Val) Val {
		n, _ := env.scalar(args[0])
		return Ite(Eq(n, Str("default")), Int(1), Ite(Eq(n, Str("invert")), Int(2), Ite(Eq(n, Str("noop")), Int(3), Int(0))))
	}
}
