package main

import (
	"go/types"

	"golang.org/x/tools/go/ssa"
)

// libCall2: models for os / filepath / bufio and friends.
func (x *Exec) libCall2(s *State, site ssa.Instruction, fn *ssa.Function, name string, args []Val, k func(*State, Val)) bool {
	T := func(i int) *Term {
		if i < len(args) {
			if t, ok := args[i].(*Term); ok {
				return t
			}
		}
		return Var(x.siteTag(site)+".arg", SString)
	}
	res := fn.Signature.Results()
	// (value, error) results where the value is an interface or pointer that
	// is non-nil exactly when the error is nil
	valueOrError := func() {
		e := x.freshErr(s, site, "err")
		var facts []*Term
		v := x.E.freshVal(res.At(0).Type(), x.siteTag(site)+".val", &facts)
		for _, f := range facts {
			s.assume(f)
		}
		switch p := v.(type) {
		case *IfaceV:
			s.assume(Eq(p.Nil, Not(e.Nil)))
		case *PtrV:
			s.assume(Eq(p.Nil, Not(e.Nil)))
		}
		k(s, &TupleV{E: []Val{v, e}})
	}
	switch name {
	case "os.Lstat", "os.Stat", "(*os.File).Stat", "os.Open", "os.OpenFile", "os.Create", "compress/gzip.NewReader":
		x.used(name + ": returns a non-nil value exactly when the error is nil")
		valueOrError()
		return true
	case "path/filepath.Glob":
		x.used(name + ": every returned path has at least as many '/'-separated parts as the pattern; error only for a malformed pattern")
		paths, arr := x.newStringSlice(s, site, "glob")
		e := x.freshErr(s, site, "glob.err")
		i := Var("i!g", SInt)
		s.assume(Forall([]*Term{i}, Implies(And(Ge(i, Int(0)), Lt(i, paths.Len)), Ge(UF("uf_strcount", SInt, Select(arr, i), Str("/")), UF("uf_strcount", SInt, T(0), Str("/"))))))
		s.assume(Implies(Not(e.Nil), Eq(paths.Len, Int(0))))
		k(s, &TupleV{E: []Val{paths, e}})
		return true
	case "path/filepath.Clean", "path/filepath.Abs", "path/filepath.EvalSymlinks", "path/filepath.Base", "path/filepath.Dir":
		x.used(name)
		k(s, x.freshResult(s, site, res))
		return true
	case "(*os.File).Close", "(*os.File).Seek", "(*os.File).WriteString", "(*os.File).Write", "os.Rename", "os.Remove", "os.IsNotExist", "os.ReadFile", "os.Getpid":
		x.used(name + " (no effect on verified state)")
		k(s, x.freshResult(s, site, res))
		return true
	case "bufio.NewReader", "bufio.NewScanner", "github.com/DataDog/zstd.NewReader":
		x.used(name + ": returns a non-nil reader")
		var facts []*Term
		v := x.E.freshVal(res.At(0).Type(), x.siteTag(site)+".rd", &facts)
		switch p := v.(type) {
		case *PtrV:
			s.assume(Not(p.Nil))
		case *IfaceV:
			s.assume(Not(p.Nil))
		}
		k(s, v)
		return true
	case "(*bufio.Reader).ReadByte":
		x.used(name + ": returns the next byte or an error")
		b := x.freshInt(s, site, "byte")
		s.assume(And(Ge(b, Int(0)), Le(b, Int(255))))
		k(s, &TupleV{E: []Val{b, x.freshErr(s, site, "rb.err")}})
		return true
	case "(*bufio.Scanner).Scan", "(*bufio.Scanner).Text", "(*bufio.Scanner).Err", "(*bufio.Reader).ReadString":
		x.used(name)
		k(s, x.freshResult(s, site, res))
		return true
	case "(os.FileMode).IsRegular", "(io/fs.FileMode).IsRegular", "(io/fs.FileMode).IsDir":
		x.used(name)
		k(s, x.freshResult(s, site, res))
		return true
	case "(*golang.org/x/crypto/ssh.ServerConfig).AddHostKey", "golang.org/x/crypto/ssh.ParsePrivateKey", "golang.org/x/crypto/ssh.DiscardRequests", "golang.org/x/crypto/ssh.NewServerConn", "golang.org/x/crypto/ssh.Unmarshal":
		x.used(name + " (no effect on verified state)")
		k(s, x.freshResult(s, site, res))
		return true
	case "net.LookupIP", "(net.IP).String":
		x.used(name)
		k(s, x.freshResult(s, site, res))
		return true
	}
	_ = types.Typ
	return false
}
