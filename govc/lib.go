package main

// Trusted library model: assumed contracts of functions outside the module.
// Every entry used on a path is recorded in Engine.assumptionsUsed.

import (
	"fmt"
	"go/constant"
	"go/types"
	"regexp"
	"strings"

	"golang.org/x/tools/go/ssa"
)

func (x *Exec) used(name string) { x.E.assumeNote("library model: " + name) }

func (x *Exec) freshStr(s *State, site ssa.Instruction, suffix string) *Term {
	return Var(x.siteTag(site)+"."+suffix, SString)
}
func (x *Exec) freshInt(s *State, site ssa.Instruction, suffix string) *Term {
	return Var(x.siteTag(site)+"."+suffix, SInt)
}
func (x *Exec) freshBool(s *State, site ssa.Instruction, suffix string) *Term {
	return Var(x.siteTag(site)+"."+suffix, SBool)
}

func (x *Exec) freshErr(s *State, site ssa.Instruction, suffix string) *IfaceV {
	return &IfaceV{Nil: x.freshBool(s, site, suffix+"$nil"), Opaque: x.freshInt(s, site, suffix+"$id"), Typ: types.Universe.Lookup("error").Type()}
}

func nilErr() *IfaceV {
	return &IfaceV{Nil: TTrue, Typ: types.Universe.Lookup("error").Type()}
}

func (x *Exec) nonNilErr(s *State, site ssa.Instruction, suffix string) *IfaceV {
	return &IfaceV{Nil: TFalse, Opaque: x.freshInt(s, site, suffix+"$id"), Typ: types.Universe.Lookup("error").Type()}
}

// newStringSlice creates a fresh []string value with symbolic content.
func (x *Exec) newStringSlice(s *State, site ssa.Instruction, suffix string) (*SliceV, *Term) {
	name := x.siteTag(site) + "." + suffix
	o := x.E.storeObject(name+"$arr", types.NewArray(types.Typ[types.String], 0), false, "arr")
	arr := Var(name+"$arr", SArr(SInt, SString))
	s.heap[o.id] = &ArrV{Elem: types.Typ[types.String], T: arr}
	ln := Var(name+"$len", SInt)
	s.assume(Ge(ln, Int(0)))
	// a slice the library returned exists, so it fits in the address space
	// (the same fact input slices get; string headers are 16 bytes)
	s.assume(Le(ln, Int((1<<47)/16)))
	return &SliceV{Nil: TFalse, Obj: o, Off: Int(0), Len: ln, Cap: ln, Elem: types.Typ[types.String]}, arr
}

// absField reads a ghost field of an abstract object behind a pointer.
func (x *Exec) absGet(s *State, p Val, field string) *Term {
	pv, ok := p.(*PtrV)
	if !ok || pv.Obj == nil {
		return Var("absnil."+field, SString)
	}
	a, ok := x.load(s, pv).(*AbsV)
	if !ok {
		x.errorf("abstract object expected, got %T", x.load(s, pv))
		return Var("absbad."+field, SString)
	}
	return a.F[field].(*Term)
}

func (x *Exec) absSet(s *State, p Val, field string, v *Term) {
	pv, ok := p.(*PtrV)
	if !ok || pv.Obj == nil {
		return
	}
	a, ok := x.load(s, pv).(*AbsV)
	if !ok {
		return
	}
	n := &AbsV{Typ: a.Typ, F: map[string]Val{}}
	for k, f := range a.F {
		n.F[k] = f
	}
	n.F[field] = v
	x.store(s, pv, n)
}

func (x *Exec) recvNonNil(s *State, site ssa.Instruction, p Val, what string) {
	if pv, ok := p.(*PtrV); ok {
		nilT := pv.Nil
		if pv.Obj == nil {
			nilT = TTrue
		}
		x.check(s, "nil", site, Not(nilT), what+" on nil receiver")
	}
}

// splitN models strings.SplitN(str, sep, n) for a literal n in [1,8] exactly.
func (x *Exec) splitExact(s *State, site ssa.Instruction, str, sep *Term, n int64) *SliceV {
	res, _ := x.newStringSlice(s, site, "split")
	o := res.Obj
	arr := ConstArr(SArr(SInt, SString), Str(""))
	rest := str
	ln := Int(n)
	// build nested: element j = before_j unless no separator left
	var conds []*Term // cond_j: separator found in rest_j
	for j := int64(0); j < n-1; j++ {
		found := StrContains(rest, sep)
		idx := StrIndexOf(rest, sep, Int(0))
		before := Substr(rest, Int(0), idx)
		after := Substr(rest, Add(idx, StrLen(sep)), Sub(StrLen(rest), Add(idx, StrLen(sep))))
		elem := Ite(found, before, rest)
		arr = Store(arr, Int(j), elem)
		conds = append(conds, found)
		rest = Ite(found, after, Str(""))
	}
	arr = Store(arr, Int(n-1), rest)
	// length: 1 + number of leading found conditions
	ln = Int(1)
	allPrev := TTrue
	for _, c := range conds {
		allPrev = And(allPrev, c)
		ln = Add(ln, Ite(allPrev, Int(1), Int(0)))
	}
	lv := Var(x.siteTag(site)+".split$n", SInt)
	s.assume(Eq(lv, ln))
	// join(SplitN(s, sep, n), sep) == s, stated per possible length
	for k := int64(1); k <= n; k++ {
		var parts []*Term
		for j := int64(0); j < k; j++ {
			if j > 0 {
				parts = append(parts, sep)
			}
			parts = append(parts, Select(arr, Int(j)))
		}
		s.assume(Implies(Eq(lv, Int(k)), Eq(str, Concat(parts...))))
	}
	s.heap[o.id] = &ArrV{Elem: types.Typ[types.String], T: arr}
	res.Len = lv
	res.Cap = lv
	return res
}

var reOnlyEscapes = regexp.MustCompile("^(\x1b\\[[0-9;]*m)+$")

var reFmtVerb = regexp.MustCompile(`%[-+# 0]*[0-9]*(\.[0-9]+)?[a-zA-Z%]`)

// sprintf models fmt.Sprintf for a literal format. Unknown pieces become
// fresh strings (sound: nothing is assumed about them).
func (x *Exec) sprintf(s *State, site ssa.Instruction, format *Term, argv Val) *Term {
	if format.Op != "str" {
		return x.freshStr(s, site, "sprintf")
	}
	var ifs []*IfaceV
	if sv, ok := argv.(*SliceV); ok && sv.Obj != nil && sv.Len.Op == "int" {
		av := x.E.objVal(s, sv.Obj).(*ArrV)
		for j := int64(0); j < sv.Len.I.Int64(); j++ {
			v := x.E.fromTerm(s, Select(av.T, Add(sv.Off, Int(j))), av.Elem, "fmtarg")
			iv, _ := v.(*IfaceV)
			ifs = append(ifs, iv)
		}
	}
	f := format.Str
	var parts []*Term
	pos := 0
	argi := 0
	k := 0
	for _, loc := range reFmtVerb.FindAllStringIndex(f, -1) {
		parts = append(parts, Str(f[pos:loc[0]]))
		verb := f[loc[0]:loc[1]]
		pos = loc[1]
		if verb == "%%" {
			parts = append(parts, Str("%"))
			continue
		}
		var iv *IfaceV
		if argi < len(ifs) {
			iv = ifs[argi]
		}
		argi++
		k++
		piece := x.freshStr(s, site, fmt.Sprintf("fmt%d", k))
		if iv != nil && iv.Dyn != nil {
			if t, ok := iv.V.(*Term); ok {
				plain := verb == "%v" || verb == "%s" || verb == "%d"
				switch {
				case t.S == SString && (verb == "%s" || verb == "%v"):
					piece = t
				case t.S == SInt && isIntType(iv.Dyn) && plain && verb != "%s":
					piece = Ite(Ge(t, Int(0)), StrFromInt(t), Concat(Str("-"), StrFromInt(Sub(Int(0), t))))
				case t.S == SBool && (verb == "%v" || verb == "%t"):
					piece = Ite(t, Str("true"), Str("false"))
				case t.S == SReal && (verb == "%v" || verb == "%f"):
					// a float rendered by %v / %f: a deterministic function of the value;
					// %v is the shortest text that ParseFloat reads back as the same value
					piece = UF("ufs_fmt_"+verb[1:], SString, t)
					if verb == "%v" {
						s.assume(UF("parseFloatOk", SBool, piece))
						s.assume(Eq(UF("parseFloat", SReal, piece), t))
					}
				case t.S == SInt && isIntType(iv.Dyn) && regexp.MustCompile(`^%[0-9]+d$`).MatchString(verb):
					// width-padded decimal: a deterministic function of the value
					// (uninterpreted), at least `width` long, ending in the digits
					digits := Ite(Ge(t, Int(0)), StrFromInt(t), Concat(Str("-"), StrFromInt(Sub(Int(0), t))))
					var w int64
					fmt.Sscanf(verb[1:len(verb)-1], "%d", &w)
					piece = UF(fmt.Sprintf("ufs_fmt_%dd", w), SString, t)
					s.assume(Ge(StrLen(piece), Int(w)))
					s.assume(StrSuffixOf(digits, piece))
				}
			}
		}
		parts = append(parts, piece)
	}
	parts = append(parts, Str(f[pos:]))
	return Concat(parts...)
}

// hintChars: the delimiter characters for which the string models state the
// (theory-valid) fact that pieces and replacements introduce no new character.
var hintChars = []string{"\""}

// libCall returns true when the call was handled (k has been invoked).
func (x *Exec) libCall(s *State, site ssa.Instruction, fn *ssa.Function, name string, args []Val, k func(*State, Val)) bool {
	T := func(i int) *Term {
		if i < len(args) {
			if t, ok := args[i].(*Term); ok {
				return t
			}
		}
		return Var(fmt.Sprintf("%s.arg%d", x.siteTag(site), i), SString)
	}
	switch name {
	// ------------------------------------------------------------ strings
	case "strings.Split", "strings.SplitN":
		x.used(name)
		str, sep := T(0), T(1)
		if name == "strings.SplitN" {
			n := T(2)
			if n.Op == "int" && n.I.IsInt64() && n.I.Int64() >= 1 && n.I.Int64() <= 8 && sep.Op == "str" && sep.Str != "" {
				k(s, x.splitExact(s, site, str, sep, n.I.Int64()))
				return true
			}
		}
		res, arr := x.newStringSlice(s, site, "split")
		sepNonEmpty := Gt(StrLen(sep), Int(0))
		s.assume(Implies(sepNonEmpty, Ge(res.Len, Int(1))))
		// no separator: the single element is the input
		s.assume(Implies(And(sepNonEmpty, Not(StrContains(str, sep))), And(Eq(res.Len, Int(1)), Eq(Select(arr, Int(0)), str))))
		// a separator present: at least two parts, first part is the text before the first separator
		idx := StrIndexOf(str, sep, Int(0))
		unlimited := TTrue
		if name == "strings.SplitN" {
			n := T(2)
			unlimited = Or(Lt(n, Int(0)), Ge(n, Int(2)))
			s.assume(Implies(Gt(n, Int(0)), Le(res.Len, n)))
			s.assume(Implies(Eq(n, Int(0)), Eq(res.Len, Int(0))))
			s.assume(Implies(Eq(n, Int(1)), And(Eq(res.Len, Int(1)), Eq(Select(arr, Int(0)), str))))
		}
		s.assume(Implies(And(sepNonEmpty, StrContains(str, sep), unlimited), And(Ge(res.Len, Int(2)), Eq(Select(arr, Int(0)), Substr(str, Int(0), idx)))))
		if name == "strings.Split" {
			// the number of parts is one more than the number of separators
			s.assume(Implies(sepNonEmpty, Eq(res.Len, Add(UF("uf_strcount", SInt, str, sep), Int(1)))))
			s.assume(Ge(UF("uf_strcount", SInt, str, sep), Int(0)))
			// parts are bounded by the input length
			s.assume(Le(res.Len, Add(StrLen(str), Int(1))))
			// no part contains the separator
			i := Var("i!sp", SInt)
			s.assume(Forall([]*Term{i}, Implies(And(sepNonEmpty, Ge(i, Int(0)), Lt(i, res.Len)), Not(StrContains(Select(arr, i), sep)))))
			// two parts exactly: second is the remainder
			after := Substr(str, Add(idx, StrLen(sep)), Sub(StrLen(str), Add(idx, StrLen(sep))))
			s.assume(Implies(And(sepNonEmpty, StrContains(str, sep), Not(StrContains(after, sep))), And(Eq(res.Len, Int(2)), Eq(Select(arr, Int(1)), after))))
			// word-equation form of the first cut (cheap for the string solvers)
			s.assume(Implies(And(sepNonEmpty, StrContains(str, sep)), Eq(str, Concat(Select(arr, Int(0)), sep, after))))
			// a second separator: at least three parts, the second one is the text
			// between the first two separators
			idx2 := StrIndexOf(after, sep, Int(0))
			s.assume(Implies(And(sepNonEmpty, StrContains(str, sep), StrContains(after, sep)), And(Ge(res.Len, Int(3)), Eq(Select(arr, Int(1)), Substr(after, Int(0), idx2)))))
		}
		if sep.Op == "str" && sep.Str != "" && name == "strings.Split" {
			// Join(Split(s, sep), sep) == s: asserted here for the blank, and for
			// any other separator when the parts are joined again (strings.Join)
			if sep.Str == " " {
				s.assume(Eq(x.joinSepTerm(s, res, sep.Str, 3), str))
			} else {
				res.Obj.splitOf, res.Obj.splitSep, res.Obj.splitLen = str, sep.Str, res.Len
			}
		}
		k(s, res)
		return true
	case "strings.Fields":
		x.used(name)
		res, arr := x.newStringSlice(s, site, "fields")
		i := Var("i!f", SInt)
		s.assume(Forall([]*Term{i}, Implies(And(Ge(i, Int(0)), Lt(i, res.Len)), And(Gt(StrLen(Select(arr, i)), Int(0)), Not(StrContains(Select(arr, i), Str(" "))), StrContains(T(0), Select(arr, i))))))
		s.assume(Le(res.Len, StrLen(T(0))))
		// hints (valid in the theory of strings): a piece has no character its
		// source lacks
		for _, c := range hintChars {
			s.assume(Forall([]*Term{i}, Implies(And(Ge(i, Int(0)), Lt(i, res.Len), Not(StrContains(T(0), Str(c)))), Not(StrContains(Select(arr, i), Str(c))))))
		}
		k(s, res)
		return true
	case "strings.Join":
		x.used(name)
		sv, _ := args[0].(*SliceV)
		sep := T(1)
		r := x.freshStr(s, site, "join")
		if sv != nil && sep.Op == "str" && sep.Str != "" {
			s.assume(Eq(r, x.joinSepTerm(s, sv, sep.Str, 3)))
			if o := sv.Obj; o != nil && o.splitOf != nil && o.splitSep == sep.Str {
				whole := &SliceV{Nil: TFalse, Obj: o, Off: Int(0), Len: o.splitLen, Cap: o.splitLen, Elem: sv.Elem}
				s.assume(Eq(x.joinSepTerm(s, whole, sep.Str, 3), o.splitOf))
			}
		}
		if sv != nil {
			if sv.Obj != nil {
				av := x.E.objVal(s, sv.Obj).(*ArrV)
				el := func(j int64) *Term { return Select(av.T, Add(sv.Off, Int(j))) }
				s.assume(Implies(Eq(sv.Len, Int(0)), Eq(r, Str(""))))
				s.assume(Implies(Eq(sv.Len, Int(1)), Eq(r, el(0))))
				s.assume(Implies(Eq(sv.Len, Int(2)), Eq(r, Concat(el(0), sep, el(1)))))
				s.assume(Implies(Eq(sv.Len, Int(3)), Eq(r, Concat(el(0), sep, el(1), sep, el(2)))))
				// general shape: starts with the first element
				s.assume(Implies(Ge(sv.Len, Int(1)), StrPrefixOf(el(0), r)))
			} else {
				s.assume(Eq(r, Str("")))
			}
		}
		k(s, r)
		return true
	case "strings.HasPrefix":
		x.used(name)
		k(s, StrPrefixOf(T(1), T(0)))
		return true
	case "strings.HasSuffix":
		x.used(name)
		k(s, StrSuffixOf(T(1), T(0)))
		return true
	case "strings.ContainsAny":
		if cs := T(1); cs.Op == "str" && len(cs.Str) <= 16 {
			x.used(name + " (literal character set: one Contains per ASCII character)")
			ascii := true
			var ds []*Term
			for i := 0; i < len(cs.Str); i++ {
				if cs.Str[i] >= 0x80 {
					ascii = false
				}
				ds = append(ds, StrContains(T(0), Str(string(cs.Str[i]))))
			}
			if ascii {
				k(s, Or(ds...))
				return true
			}
		}
		x.used(name)
		k(s, x.freshResult(s, site, fn.Signature.Results()))
		return true
	case "strings.Contains":
		x.used(name)
		k(s, StrContains(T(0), T(1)))
		return true
	case "strings.Index":
		x.used(name)
		k(s, StrIndexOf(T(0), T(1), Int(0)))
		return true
	case "strings.TrimSuffix":
		x.used(name)
		str, suf := T(0), T(1)
		k(s, Ite(StrSuffixOf(suf, str), Substr(str, Int(0), Sub(StrLen(str), StrLen(suf))), str))
		return true
	case "strings.TrimPrefix":
		x.used(name)
		str, pre := T(0), T(1)
		k(s, Ite(StrPrefixOf(pre, str), Substr(str, StrLen(pre), Sub(StrLen(str), StrLen(pre))), str))
		return true
	case "strings.TrimSpace":
		x.used(name)
		r := UF("ufs_trimspace", SString, T(0))
		s.assume(StrContains(T(0), r))
		s.assume(Le(StrLen(r), StrLen(T(0))))
		k(s, r)
		return true
	case "strings.ToLower", "strings.ToUpper":
		x.used(name)
		r := UF("str"+strings.TrimPrefix(name, "strings.To"), SString, T(0))
		s.assume(Eq(StrLen(r), StrLen(T(0))))
		k(s, r)
		return true
	case "strings.EqualFold":
		x.used(name)
		k(s, Eq(UF("strLower", SString, T(0)), UF("strLower", SString, T(1))))
		return true
	case "strings.Replace", "strings.ReplaceAll":
		x.used(name)
		if name == "strings.ReplaceAll" || (len(args) > 3 && T(3).Op == "int" && T(3).I.Sign() < 0) {
			r := StrReplaceAll(T(0), T(1), T(2))
			// hint: replacing cannot introduce a character neither the text nor
			// the replacement has
			for _, c := range hintChars {
				s.assume(Implies(And(Not(StrContains(T(0), Str(c))), Not(StrContains(T(2), Str(c)))), Not(StrContains(r, Str(c)))))
			}
			k(s, r)
			return true
		}
		k(s, x.freshStr(s, site, "replace"))
		return true
	case "strings.Repeat":
		x.used(name)
		n := T(1)
		x.check(s, "panic", site, Ge(n, Int(0)), "strings.Repeat: negative count panics")
		r := x.freshStr(s, site, "repeat")
		s.assume(Eq(StrLen(r), Mul(StrLen(T(0)), n)))
		k(s, r)
		return true
	case "(*strings.Builder).WriteString", "(*bytes.Buffer).WriteString":
		x.used(name)
		x.recvNonNil(s, site, args[0], name)
		x.absSet(s, args[0], "content", Concat(x.absGet(s, args[0], "content"), T(1)))
		if name == "(*strings.Builder).WriteString" {
			// ghost projection `plain`: everything written except values of the
			// colour types (escape sequences) of package color
			if !x.isColourValue(site, 1) {
				x.absSet(s, args[0], "plain", Concat(x.absGet(s, args[0], "plain"), T(1)))
			} else {
				x.E.assumeNote("ghost projection plain(sb): writes of color.FgColor/BgColor/Attribute values are the escape sequences the painter adds (all constants of these types are ESC[..m, checked syntactically)")
			}
		}
		k(s, &TupleV{E: []Val{StrLen(T(1)), nilErr()}})
		return true
	case "(*strings.Builder).WriteByte", "(*bytes.Buffer).WriteByte":
		x.used(name)
		x.recvNonNil(s, site, args[0], name)
		b := args[1].(*Term)
		x.absSet(s, args[0], "content", Concat(x.absGet(s, args[0], "content"), StrFromCode(b)))
		if name == "(*strings.Builder).WriteByte" {
			x.absSet(s, args[0], "plain", Concat(x.absGet(s, args[0], "plain"), StrFromCode(b)))
		}
		k(s, nilErr())
		return true
	case "(*bytes.Buffer).Write":
		x.used(name)
		x.recvNonNil(s, site, args[0], name)
		if sv, ok := args[1].(*SliceV); ok {
			b := x.E.sliceBytes(s, sv)
			x.absSet(s, args[0], "content", Concat(x.absGet(s, args[0], "content"), b))
			k(s, &TupleV{E: []Val{sv.Len, nilErr()}})
			return true
		}
	case "(*bytes.Buffer).Read":
		x.used(name + ": hands out and consumes the first min(len(p), Len()) bytes; io.EOF iff the buffer is empty and len(p) > 0")
		x.recvNonNil(s, site, args[0], name)
		if dst, ok := args[1].(*SliceV); ok {
			c := x.absGet(s, args[0], "content")
			n := Ite(Le(dst.Len, StrLen(c)), dst.Len, StrLen(c))
			if dst.Obj != nil {
				av := x.E.objVal(s, dst.Obj).(*ArrV)
				if av.IsStr {
					total := StrLen(av.T)
					nt := Concat(Substr(av.T, Int(0), dst.Off), Substr(c, Int(0), n), Substr(av.T, Add(dst.Off, n), Sub(total, Add(dst.Off, n))))
					na := *av
					na.T = nt
					s.heap[dst.Obj.id] = &na
					x.recordWrite(s, dst.Obj, nil)
				}
			}
			x.absSet(s, args[0], "content", Substr(c, n, Sub(StrLen(c), n)))
			e := x.freshErr(s, site, "bufread.err")
			s.assume(Eq(e.Nil, Not(And(Eq(StrLen(c), Int(0)), Gt(dst.Len, Int(0))))))
			k(s, &TupleV{E: []Val{n, e}})
			return true
		}
	case "(*strings.Builder).String", "(*bytes.Buffer).String":
		x.used(name)
		if pv, ok := args[0].(*PtrV); ok && name == "(*bytes.Buffer).String" {
			// a nil *bytes.Buffer renders as "<nil>"
			if pv.Obj == nil {
				k(s, Str("<nil>"))
				return true
			}
			k(s, Ite(pv.Nil, Str("<nil>"), x.absGet(s, args[0], "content")))
			return true
		}
		x.recvNonNil(s, site, args[0], name)
		c := x.absGet(s, args[0], "content")
		if name == "(*strings.Builder).String" {
			// the plain projection of the string just built
			s.assume(Eq(UF("ufs_plain", SString, c), x.absGet(s, args[0], "plain")))
		}
		k(s, c)
		return true
	case "(*bytes.Buffer).Bytes":
		x.used(name)
		x.recvNonNil(s, site, args[0], name)
		c := x.absGet(s, args[0], "content")
		o := x.E.storeObject(x.siteTag(site)+":bytes", types.NewArray(types.Typ[types.Byte], 0), false, "arr")
		s.heap[o.id] = &ArrV{Elem: types.Typ[types.Byte], IsStr: true, T: c}
		k(s, &SliceV{Nil: TFalse, Obj: o, Off: Int(0), Len: StrLen(c), Cap: StrLen(c), Elem: types.Typ[types.Byte]})
		return true
	case "(*strings.Builder).Len", "(*bytes.Buffer).Len":
		x.used(name)
		x.recvNonNil(s, site, args[0], name)
		k(s, StrLen(x.absGet(s, args[0], "content")))
		return true
	case "(*strings.Builder).Reset", "(*bytes.Buffer).Reset":
		x.used(name)
		x.recvNonNil(s, site, args[0], name)
		x.absSet(s, args[0], "content", Str(""))
		if strings.HasPrefix(name, "(*strings.Builder)") {
			x.absSet(s, args[0], "plain", Str(""))
		}
		k(s, nil)
		return true
	case "(*strings.Builder).Grow", "(*bytes.Buffer).Grow":
		x.used(name)
		x.recvNonNil(s, site, args[0], name)
		x.check(s, "panic", site, Ge(args[1].(*Term), Int(0)), "Grow: negative count panics")
		k(s, nil)
		return true
	// ------------------------------------------------------------ strconv
	case "strconv.Atoi":
		x.used(name)
		r := x.freshInt(s, site, "atoi")
		e := x.freshErr(s, site, "atoi.err")
		str := T(0)
		// a string of decimal digits parses to its value (no overflow below 19 digits)
		isNum := Ge(app("str.to_int", SInt, str), Int(0))
		s.assume(Implies(And(isNum, Le(StrLen(str), Int(18))), And(e.Nil, Eq(r, app("str.to_int", SInt, str)))))
		s.assume(Implies(Eq(str, Str("")), Not(e.Nil)))
		s.assume(Implies(Not(e.Nil), Eq(r, Int(0))))
		// "-" digits
		neg := And(StrPrefixOf(Str("-"), str), Ge(app("str.to_int", SInt, Substr(str, Int(1), Sub(StrLen(str), Int(1)))), Int(0)), Le(StrLen(str), Int(18)))
		s.assume(Implies(neg, And(e.Nil, Eq(r, Sub(Int(0), app("str.to_int", SInt, Substr(str, Int(1), Sub(StrLen(str), Int(1)))))))))
		k(s, &TupleV{E: []Val{r, e}})
		return true
	case "strconv.Itoa":
		x.used(name)
		t := args[0].(*Term)
		k(s, Ite(Ge(t, Int(0)), StrFromInt(t), Concat(Str("-"), StrFromInt(Sub(Int(0), t)))))
		return true
	case "strconv.ParseFloat":
		x.used(name)
		r := UF("parseFloat", SReal, T(0))
		ok := UF("parseFloatOk", SBool, T(0))
		e := x.freshErr(s, site, "pf.err")
		s.assume(Eq(e.Nil, ok))
		k(s, &TupleV{E: []Val{Ite(ok, r, RealLit("0.0")), e}})
		return true
	case "strconv.ParseInt":
		x.used(name)
		r := x.freshInt(s, site, "parseint")
		e := x.freshErr(s, site, "parseint.err")
		k(s, &TupleV{E: []Val{r, e}})
		return true
	// ------------------------------------------------------------ fmt / errors
	case "fmt.Sprintf":
		x.used(name)
		k(s, x.sprintf(s, site, T(0), args[1]))
		return true
	case "fmt.Errorf":
		x.used(name)
		k(s, x.nonNilErr(s, site, "errorf"))
		return true
	case "errors.New":
		x.used(name)
		k(s, x.nonNilErr(s, site, "errnew"))
		return true
	case "fmt.Sprint", "fmt.Sprintln":
		x.used(name)
		k(s, x.freshStr(s, site, "sprint"))
		return true
	case "fmt.Print", "fmt.Println", "fmt.Printf":
		x.used(name)
		x.ghostPrint(s, site, name, args)
		k(s, &TupleV{E: []Val{x.freshInt(s, site, "n"), nilErr()}})
		return true
	// ------------------------------------------------------------ base64
	case "(*encoding/base64.Encoding).DecodeString":
		x.used(name)
		e := x.freshErr(s, site, "b64.err")
		ok := UF("ufb_b64valid", SBool, T(1))
		s.assume(Eq(e.Nil, ok))
		dec := UF("ufs_b64decode", SString, T(1))
		o := x.E.storeObject(x.siteTag(site)+":b64", types.NewArray(types.Typ[types.Byte], 0), false, "arr")
		s.heap[o.id] = &ArrV{Elem: types.Typ[types.Byte], IsStr: true, T: dec}
		k(s, &TupleV{E: []Val{&SliceV{Nil: TFalse, Obj: o, Off: Int(0), Len: StrLen(dec), Cap: StrLen(dec), Elem: types.Typ[types.Byte]}, e}})
		return true
	case "(*encoding/base64.Encoding).EncodeToString":
		x.used(name)
		var src *Term
		if sv, ok := args[1].(*SliceV); ok {
			src = x.E.sliceBytes(s, sv)
		} else {
			src = x.freshStr(s, site, "src")
		}
		enc := UF("ufs_b64encode", SString, src)
		// decode∘encode = id; the alphabet contains neither ' ' nor ';'
		s.assume(UF("ufb_b64valid", SBool, enc))
		s.assume(Eq(UF("ufs_b64decode", SString, enc), src))
		s.assume(Not(StrContains(enc, Str(" "))))
		s.assume(Not(StrContains(enc, Str(";"))))
		k(s, enc)
		return true
	// ------------------------------------------------------------ sync
	case "(*sync.Mutex).Lock", "(*sync.RWMutex).Lock", "(*sync.RWMutex).RLock":
		x.used(name)
		x.recvNonNil(s, site, args[0], name)
		x.absSet(s, args[0], "locked", TTrue)
		k(s, nil)
		return true
	case "(*sync.Mutex).Unlock", "(*sync.RWMutex).Unlock", "(*sync.RWMutex).RUnlock":
		x.used(name)
		x.recvNonNil(s, site, args[0], name)
		if pv, ok := args[0].(*PtrV); ok && pv.Obj != nil {
			if a, ok := x.load(s, pv).(*AbsV); ok {
				x.check(s, "panic", site, a.F["locked"].(*Term), "unlock of unlocked mutex")
			}
		}
		x.absSet(s, args[0], "locked", TFalse)
		k(s, nil)
		return true
	case "(*sync.Once).Do":
		x.used(name)
		x.recvNonNil(s, site, args[0], name)
		// either the function runs now (first call) or it does not
		s2 := s.clone()
		if x.pathBudget() {
			x.callValue(s2, site, &ssa.CallCommon{Value: site.(*ssa.Call).Call.Args[1]}, args[1], nil, func(s *State, _ Val) { k(s, nil) })
		}
		k(s, nil)
		return true
	case "(*sync.WaitGroup).Add", "(*sync.WaitGroup).Done", "(*sync.WaitGroup).Wait":
		x.used(name)
		k(s, nil)
		return true
	case "(*sync.Pool).Get":
		x.used(name)
		k(s, x.poolGet(s, site, args[0]))
		return true
	case "(*sync.Pool).Put":
		x.used(name)
		// pool invariant behind poolGet: only emptied buffers go back
		if pv, ok := args[0].(*PtrV); ok && pv.Obj != nil && (strings.HasSuffix(pv.Obj.name, "pool.BytesBuffer") || strings.HasSuffix(pv.Obj.name, "pool.BuilderBuffer")) {
			if iv, ok := args[1].(*IfaceV); ok && iv.Dyn != nil {
				if bp, ok := iv.V.(*PtrV); ok && bp.Obj != nil {
					if a, ok := x.load(s, bp).(*AbsV); ok {
						if c, ok := a.F["content"].(*Term); ok {
							x.oblige(s, "assert", "pool-put-reset@"+x.label(s, site), Eq(c, Str("")), site, "a buffer handed back to the pool must be empty: Get() is assumed to return empty buffers")
						}
					}
				}
			} else {
				x.oblige(s, "assert", "pool-put-reset@"+x.label(s, site), TFalse, site, "a value of unknown type is put into a buffer pool")
			}
		}
		k(s, nil)
		return true
	case "sync/atomic.AddInt32", "sync/atomic.AddInt64":
		x.used(name)
		if pv, ok := args[0].(*PtrV); ok && pv.Obj != nil {
			x.nonNil(s, site, pv)
			cur := x.load(s, pv).(*Term)
			nv := Add(cur, args[1].(*Term))
			x.store(s, pv, nv)
			k(s, nv)
			return true
		}
	case "sync/atomic.LoadInt32", "sync/atomic.LoadInt64":
		x.used(name)
		if pv, ok := args[0].(*PtrV); ok && pv.Obj != nil {
			x.nonNil(s, site, pv)
			k(s, x.load(s, pv))
			return true
		}
	// ------------------------------------------------------------ time / context
	case "time.Sleep":
		x.used(name)
		k(s, nil)
		return true
	case "time.After":
		x.used(name)
		o := x.E.storeObject(x.siteTag(site)+":timer", fn.Signature.Results().At(0).Type(), false, "chan")
		s.heap[o.id] = &ChanStore{Cap: Int(1), Closed: TFalse, SentCnt: Int(0), RecvCnt: Int(0), Held: Int(0), Sent: Str("")}
		k(s, &ChanV{Nil: TFalse, Obj: o, Elem: under(fn.Signature.Results().At(0).Type()).(*types.Chan).Elem()})
		return true
	case "time.NewTicker", "time.NewTimer", "time.Tick":
		// NewTicker / Tick panic on a non-positive duration; the result is a
		// non-nil timer whose channel field C is a channel nothing else closes
		x.used(name + ": non-nil result; NewTicker / Tick panic unless the duration is positive")
		if name != "time.NewTimer" {
			x.check(s, "panic", site, Gt(T(0), Int(0)), name+": non-positive interval panics")
		}
		var facts []*Term
		r := x.E.freshVal(fn.Signature.Results().At(0).Type(), x.siteTag(site)+".timer", &facts)
		for _, f := range facts {
			s.assume(f)
		}
		switch p := r.(type) {
		case *PtrV:
			s.assume(Not(p.Nil))
			if sv, ok := x.load(s, p).(*StructV); ok && len(sv.F) > 0 {
				if cv, ok := sv.F[0].(*ChanV); ok {
					s.assume(Not(cv.Nil))
				}
			}
		case *ChanV:
			s.assume(Not(p.Nil))
		}
		k(s, r)
		return true
	case "time.Now":
		x.used(name)
		var facts []*Term
		k(s, x.E.freshVal(fn.Signature.Results().At(0).Type(), x.siteTag(site)+".now", &facts))
		return true
	case "context.WithCancel":
		x.used(name)
		ctx := &IfaceV{Nil: TFalse, Opaque: x.freshInt(s, site, "ctx$id"), Typ: fn.Signature.Results().At(0).Type()}
		cancel := &FuncV{Nil: TFalse, Opaque: x.freshInt(s, site, "cancel$id"), Sig: under(fn.Signature.Results().At(1).Type()).(*types.Signature)}
		k(s, &TupleV{E: []Val{ctx, cancel}})
		return true
	case "context.Background", "context.TODO":
		x.used(name)
		k(s, &IfaceV{Nil: TFalse, Opaque: Int(7), Typ: fn.Signature.Results().At(0).Type()})
		return true
	// ------------------------------------------------------------ regexp
	case "regexp.Compile":
		x.used(name)
		pat := T(0)
		e := x.freshErr(s, site, "re.err")
		s.assume(Eq(e.Nil, UF("ufb_re_valid", SBool, pat)))
		o := x.E.newObject(x.siteTag(site)+":regexp", fn.Signature.Results().At(0).Type().(*types.Pointer).Elem())
		s.heap[o.id] = &AbsV{Typ: o.typ, F: map[string]Val{"pattern": pat}}
		k(s, &TupleV{E: []Val{&PtrV{Nil: Not(e.Nil), Obj: o, Elem: o.typ}, e}})
		return true
	case "(*regexp.Regexp).Match", "(*regexp.Regexp).MatchString":
		x.used(name)
		x.recvNonNil(s, site, args[0], name)
		pat := x.absGet(s, args[0], "pattern")
		var subj *Term
		switch a := args[1].(type) {
		case *Term:
			subj = a
		case *SliceV:
			subj = x.E.sliceBytes(s, a)
		}
		k(s, UF("re_match", SBool, pat, subj))
		return true
	// ------------------------------------------------------------ rand
	case "(*math/rand.Rand).Intn", "math/rand.Intn":
		x.used(name)
		n := args[len(args)-1].(*Term)
		x.check(s, "panic", site, Gt(n, Int(0)), "rand.Intn: non-positive argument panics")
		r := x.freshInt(s, site, "intn")
		s.assume(And(Ge(r, Int(0)), Lt(r, n)))
		k(s, r)
		return true
	case "math/rand.New", "math/rand.NewSource", "(time.Time).Unix", "(time.Time).Zone", "(time.Time).Format":
		x.used(name)
		k(s, x.freshResult(s, site, fn.Signature.Results()))
		return true
	}
	return x.libCall2(s, site, fn, name, args, k)
}

// poolGet: sync.Pool.Get on the module's two pools returns a non-nil object
// of the pool's element type; its content is unconstrained unless the pool
// invariant (only reset objects are put back) is stated by a global-invariant.
func (x *Exec) poolGet(s *State, site ssa.Instruction, recv Val) Val {
	pv, _ := recv.(*PtrV)
	name := ""
	if pv != nil && pv.Obj != nil {
		name = pv.Obj.name
	}
	var elem types.Type
	switch {
	case strings.HasSuffix(name, "pool.BytesBuffer"):
		elem = x.lookupNamed("bytes", "Buffer")
	case strings.HasSuffix(name, "pool.BuilderBuffer"):
		elem = x.lookupNamed("strings", "Builder")
	case strings.HasSuffix(name, "line.lineBuffer"):
		elem = x.lookupNamed(modPath+"/internal/io/line", "Line")
	}
	if elem == nil {
		return &IfaceV{Nil: x.freshBool(s, site, "pool$nil"), Opaque: x.freshInt(s, site, "pool$id")}
	}
	x.E.assumeNote("sync.Pool " + name + ": Get returns a non-nil *" + typeName(elem) + " (New is set); for the two buffer pools the content is empty because the only Put sites reset first")
	o := x.E.newObject(x.siteTag(site)+":pooled", elem)
	var facts []*Term
	v := x.E.freshVal(elem, o.name, &facts)
	if a, ok := v.(*AbsV); ok {
		if _, has := a.F["content"]; has {
			a.F["content"] = Str("")
		}
		if _, has := a.F["plain"]; has {
			a.F["plain"] = Str("")
		}
	}
	for _, f := range facts {
		s.assume(f)
	}
	s.heap[o.id] = v
	x.E.nextObj++
	return &IfaceV{Nil: TFalse, Dyn: types.NewPointer(elem), V: &PtrV{Nil: TFalse, Obj: o, Elem: elem}, Opaque: Int(int64(2000000 + x.E.nextObj))}
}

func (x *Exec) lookupNamed(pkgPath, name string) types.Type {
	sp := x.P.SSA[pkgPath]
	if sp == nil {
		return nil
	}
	if o := sp.Pkg.Scope().Lookup(name); o != nil {
		return o.Type()
	}
	return nil
}

// libInvoke models interface method calls on library interfaces.
func (x *Exec) libInvoke(s *State, site ssa.Instruction, full string, recv Val, args []Val) (Val, bool) {
	switch full {
	case "context.Context.Done":
		x.used(full)
		iv, _ := recv.(*IfaceV)
		id := "ctx"
		if iv != nil && iv.Opaque != nil {
			id = "ctx" + iv.Opaque.String()
		}
		ct := types.NewChan(types.RecvOnly, types.NewStruct(nil, nil))
		o := x.E.storeObject(id+".done$chan", ct, true, "chan")
		return &ChanV{Nil: TFalse, Obj: o, Elem: ct.Elem()}, true
	case "context.Context.Err":
		x.used(full)
		return x.freshErr(s, site, "ctxerr"), true
	case "ssh.PublicKey.Marshal":
		x.used(full + ": injective wire encoding of the key (ufs_key_marshal)")
		iv, _ := recv.(*IfaceV)
		var id *Term = Int(0)
		if iv != nil && iv.Opaque != nil {
			id = iv.Opaque
		}
		m := UF("ufs_key_marshal", SString, id)
		o := x.E.storeObject(x.siteTag(site)+":marshal", types.NewArray(types.Typ[types.Byte], 0), false, "arr")
		s.heap[o.id] = &ArrV{Elem: types.Typ[types.Byte], IsStr: true, T: m}
		return &SliceV{Nil: TFalse, Obj: o, Off: Int(0), Len: StrLen(m), Cap: StrLen(m), Elem: types.Typ[types.Byte]}, true
	case "ssh.ConnMetadata.User", "net.Addr.String", "ssh.Conn.User":
		x.used(full + ": a pure function of the connection")
		iv, _ := recv.(*IfaceV)
		var id *Term = Int(0)
		if iv != nil && iv.Opaque != nil {
			id = iv.Opaque
		}
		return UF("ufs_"+strings.ReplaceAll(strings.ReplaceAll(full, ".", "_"), "/", "_"), SString, id), true
	case "ssh.ConnMetadata.RemoteAddr", "ssh.Conn.RemoteAddr":
		x.used(full + ": a pure function of the connection")
		iv, _ := recv.(*IfaceV)
		var id *Term = Int(0)
		if iv != nil && iv.Opaque != nil {
			id = iv.Opaque
		}
		return &IfaceV{Nil: TFalse, Opaque: UF("uf_conn_remoteaddr", SInt, id)}, true
	case "fs.FileInfo.Mode", "os.FileInfo.Mode":
		x.used(full + ": the mode recorded by Lstat / Stat (uf_fileinfo_mode)")
		iv, _ := recv.(*IfaceV)
		if iv != nil && iv.Opaque != nil {
			return UF("uf_fileinfo_mode", SInt, iv.Opaque), true
		}
		return x.freshInt(s, site, "mode"), true
	case "fs.FileInfo.Size", "os.FileInfo.Size":
		x.used(full + ": size recorded by Stat (uf_fileinfo_size)")
		iv, _ := recv.(*IfaceV)
		if iv != nil && iv.Opaque != nil {
			return UF("uf_fileinfo_size", SInt, iv.Opaque), true
		}
		return x.freshInt(s, site, "size"), true
	case "error.Error":
		x.used(full)
		return x.freshStr(s, site, "errstr"), true
	case "fmt.Stringer.String":
		return x.freshStr(s, site, "string"), true
	}
	return nil, false
}

// ghostPrint appends printed text to the ghost stdout stream.
func (x *Exec) ghostPrint(s *State, site ssa.Instruction, name string, args []Val) {
	cur, _ := s.ghost["g_stdout"].(*Term)
	if cur == nil {
		cur = Var("g_stdout@entry", SString)
	}
	var text *Term
	if name == "fmt.Printf" {
		text = x.sprintf(s, site, args[0].(*Term), args[1])
	} else {
		// Print / Println of a single string argument is modelled exactly
		text = x.freshStr(s, site, "printed")
		if sv, ok := args[0].(*SliceV); ok && sv.Obj != nil && sv.Len.Op == "int" && sv.Len.I.Int64() == 1 {
			av := x.E.objVal(s, sv.Obj).(*ArrV)
			if iv, ok := x.E.fromTerm(s, Select(av.T, sv.Off), av.Elem, "printarg").(*IfaceV); ok && iv.Dyn != nil {
				if t, ok := iv.V.(*Term); ok && t.S == SString {
					text = t
				}
			}
		}
		if name == "fmt.Println" {
			text = Concat(text, Str("\n"))
		}
	}
	s.ghost["g_stdout"] = Concat(cur, text)
	s.writes["ghost:var:g_stdout"] = writeRec{obj: x.fsMarker()}
}

// isColourValue: argument i of the call is a conversion from one of the
// colour types of package color.
func (x *Exec) isColourValue(site ssa.Instruction, i int) bool {
	call, ok := site.(ssa.CallInstruction)
	if !ok {
		return false
	}
	args := call.Common().Args
	if i >= len(args) {
		return false
	}
	var src ssa.Value
	switch v := args[i].(type) {
	case *ssa.ChangeType:
		src = v.X
	case *ssa.Convert:
		src = v.X
	case *ssa.Const:
		// a constant consisting only of ANSI SGR escape sequences (the
		// compiler folds string(color.FgDefault) into such a constant)
		if v.Value != nil && isStringType(v.Type()) {
			return reOnlyEscapes.MatchString(constant.StringVal(v.Value))
		}
		return false
	default:
		return false
	}
	nt, ok := src.Type().(*types.Named)
	if !ok || nt.Obj().Pkg() == nil || nt.Obj().Pkg().Path() != modPath+"/internal/color" {
		return false
	}
	switch nt.Obj().Name() {
	case "FgColor", "BgColor", "Attribute":
		return true
	}
	return false
}
