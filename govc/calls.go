package main

// Calls: contracts at call sites, inlining on request, builtins, interface
// dispatch, and the default (havoc) treatment of uncontracted callees.

import (
	"fmt"
	"go/ast"
	"go/parser"
	"go/token"
	"go/types"
	"os"
	"strings"

	"golang.org/x/tools/go/ssa"
)

func (x *Exec) call(s *State, site ssa.Instruction, cc *ssa.CallCommon, k func(*State, Val)) {
	var args []Val
	for _, a := range cc.Args {
		args = append(args, x.val(s, a))
	}
	fv := x.val(s, cc.Value)
	x.callValue(s, site, cc, fv, args, k)
}

func (x *Exec) goCall(s *State, in *ssa.Go) {
	// check the spawned function's preconditions at the spawn site; its
	// effects on the spawner's state are not modelled.
	cc := &in.Call
	var args []Val
	for _, a := range cc.Args {
		args = append(args, x.val(s, a))
	}
	fv := x.val(s, cc.Value)
	if cc.IsInvoke() {
		return
	}
	f, ok := fv.(*FuncV)
	if !ok {
		return
	}
	fn, ok := f.Fn.(*ssa.Function)
	if !ok || !isRepoFunc(fn) {
		return
	}
	// the variables a spawned closure captured are visible to at-call clauses
	// as captured_<name> (their values at the go statement)
	x.extraLets = map[string]Val{"spawned": TTrue}
	for i, a := range args {
		x.extraLets[fmt.Sprintf("arg%d", i)] = a
	}
	for i, fv := range fn.FreeVars {
		if i < len(f.Bind) {
			if pv, ok := f.Bind[i].(*PtrV); ok && pv.Obj != nil {
				x.extraLets["captured_"+fv.Name()] = x.load(s, pv)
			}
		}
	}
	x.atCallAssertions(s, in, fn.String())
	x.extraLets = nil
	c := x.P.contractFor(fn)
	if c == nil || (len(c.Requires) == 0 && len(c.ChanInvs) == 0) {
		return
	}
	env := x.calleeEnv(s, fn, c, args, f.Bind)
	x.checkCalleeChanInvs(s, in, c, env, funcKey(fn))
	for i, r := range c.Requires {
		lbl := r.Label
		if lbl == "" {
			lbl = fmt.Sprintf("%d", i+1)
		}
		t := env.evalBool(r.Expr)
		x.oblige(s, "pre", fmt.Sprintf("%s/%s@go %s", funcKey(fn), lbl, x.label(s, in)), t, in, r.Src)
	}
}

// atCallAssertions checks the caller's `at-call` clauses matching this callee.
func (x *Exec) atCallAssertions(s *State, site ssa.Instruction, calleeName string) {
	x.atCallAssertionsArgs(s, site, calleeName, nil)
}

func (x *Exec) atCallAssertionsArgs(s *State, site ssa.Instruction, calleeName string, args []Val) {
	x.atCallAssertionsCallee(s, site, calleeName, args, nil)
}

// atCallAssertionsCallee: callee is the function value being called (visible to
// the clause as `callee`) when the call is dynamic.
func (x *Exec) atCallAssertionsCallee(s *State, site ssa.Instruction, calleeName string, args []Val, callee Val) {
	if len(s.frames) == 0 {
		return
	}
	cf := x.clauseFrame(s)
	ct := x.P.contractFor(cf.fn)
	if ct == nil {
		return
	}
	for _, ac := range ct.AtCalls {
		if !strings.Contains(calleeName, ac.Callee) {
			continue
		}
		if ac.Site != "" && !strings.Contains(x.label(s, site), ac.Site) {
			continue
		}
		if cf.fn == x.fn {
			x.clauseHit[ac] = true
		}
		env := x.specEnvOf(s, cf)
		for i, a := range args {
			env.lets[fmt.Sprintf("arg%d", i)] = a
		}
		if callee != nil {
			env.lets["callee"] = callee
		}
		env.lets["spawned"] = TFalse // true at a `go` statement
		for k, v := range x.extraLets {
			env.lets[k] = v
		}
		if ac.Pred != nil {
			x.checkParamsUnchanged(s, ac.Pred.Expr, "at-call "+ac.Callee+" ["+ac.Pred.Label+"]")
		}
		if ac.Effect != nil {
			// ghost update at the call: g_x == expr
			if be, ok := ac.Effect.Expr.(*ast.BinaryExpr); ok && be.Op == token.EQL {
				if id, ok := be.X.(*ast.Ident); ok && strings.HasPrefix(id.Name, "g_") {
					s.ghost[id.Name] = env.eval(be.Y)
					s.writes["ghost:var:"+id.Name] = writeRec{obj: x.fsMarker()}
					continue
				}
			}
			x.errorf("at-call effect needs the form `g_name == expr`")
			continue
		}
		t := env.evalBool(ac.Pred.Expr)
		x.oblige(s, "assert", fmt.Sprintf("%s@%s", ac.Pred.Label, x.label(s, site)), t, site, ac.Pred.Src)
		s.assume(t)
	}
}

// bindResult wraps k so that the result of a call named by a bind clause of
// the calling function's contract becomes visible to its later clauses.
func (x *Exec) bindResult(s *State, site ssa.Instruction, calleeName string, k func(*State, Val)) func(*State, Val) {
	if len(s.frames) == 0 {
		return k
	}
	ct := x.P.contractFor(x.clauseFrame(s).fn)
	if ct == nil || len(ct.Binds) == 0 {
		return k
	}
	var hits []*BindClause
	for _, b := range ct.Binds {
		if strings.Contains(calleeName, b.Callee) && (b.Site == "" || strings.Contains(x.label(s, site), b.Site)) {
			hits = append(hits, b)
		}
	}
	if len(hits) == 0 {
		return k
	}
	depth := len(s.frames)
	return func(s2 *State, v Val) {
		if len(s2.frames) == depth && x.clauseFrame(s2).fn == x.fn {
			for _, b := range hits {
				if s2.binds == nil {
					s2.binds = map[string]Val{}
				}
				s2.binds[b.Name] = v
				if tv, ok := v.(*TupleV); ok {
					// the components of a multi-value result: name0, name1, ...
					for i, ev := range tv.E {
						s2.binds[fmt.Sprintf("%s%d", b.Name, i)] = ev
					}
				}
				x.clauseHit[b] = true
			}
		}
		k(s2, v)
	}
}

func (x *Exec) callValue(s *State, site ssa.Instruction, cc *ssa.CallCommon, fv Val, args []Val, k func(*State, Val)) {
	if cc.IsInvoke() {
		k = x.bindResult(s, site, typeName(cc.Value.Type())+"."+cc.Method.Name(), k)
	} else if f, ok := fv.(*FuncV); ok {
		if fn, ok := f.Fn.(*ssa.Function); ok {
			k = x.bindResult(s, site, fn.String(), k)
		}
	}
	if cc.IsInvoke() {
		x.atCallAssertionsArgs(s, site, typeName(cc.Value.Type())+"."+cc.Method.Name(), args)
	} else if f, ok := fv.(*FuncV); ok {
		if fn, ok := f.Fn.(*ssa.Function); ok {
			x.atCallAssertionsArgs(s, site, fn.String(), args)
		}
	}
	if cc.IsInvoke() {
		x.invoke(s, site, cc, fv, args, k)
		return
	}
	f, ok := fv.(*FuncV)
	if !ok {
		x.errorf("call of %T", fv)
		k(s, x.freshResult(s, site, cc.Signature().Results()))
		return
	}
	switch fn := f.Fn.(type) {
	case *ssa.Builtin:
		x.atCallAssertionsArgs(s, site, "builtin:"+fn.Name(), args)
		k(s, x.builtin(s, site, fn, cc, args))
		return
	case *ssa.Function:
		x.callStatic(s, site, cc, fn, f.Bind, args, k)
		return
	}
	// unknown function value: contract by named function type, else havoc
	x.atCallAssertionsCallee(s, site, "dynamic:"+typeName(cc.Value.Type()), args, fv)
	k = x.bindResult(s, site, "dynamic:"+typeName(cc.Value.Type()), k)
	x.check(s, "nil", site, Not(f.Nil), "call of nil function value")
	if nt, ok := cc.Value.Type().(*types.Named); ok && nt.Obj().Pkg() != nil {
		if c := x.P.ifaceContract(nt.Obj().Pkg().Path(), nt.Obj().Name()); c != nil {
			x.applyContract(s, site, nil, c, cc.Signature(), args, nil, nt.Obj().Name(), k)
			return
		}
	}
	// context.CancelFunc and friends: no effect on verified state
	if nt, ok := cc.Value.Type().(*types.Named); ok && nt.Obj().Name() == "CancelFunc" {
		k(s, nil)
		return
	}
	x.E.note("call through unknown function value " + typeName(cc.Value.Type()) + ": results and reachable state havoc'd")
	for _, a := range args {
		x.havocReachable(s, a, x.siteTag(site), map[int]bool{}, 0)
	}
	k(s, x.freshResult(s, site, cc.Signature().Results()))
}

// siteTag names values born at a call / receive site. The leading '§' marks
// objects that did not exist when the function under verification started.
func (x *Exec) siteTag(site ssa.Instruction) string {
	if v, ok := site.(ssa.Value); ok {
		return "§" + regName(v)
	}
	return fmt.Sprintf("§%s.b%d", fnDisplay(site.Parent()), site.Block().Index)
}

func (x *Exec) freshResult(s *State, site ssa.Instruction, res *types.Tuple) Val {
	if res == nil || res.Len() == 0 {
		return nil
	}
	var facts []*Term
	var r Val
	name := x.siteTag(site) + ".ret"
	if res.Len() == 1 {
		r = x.E.freshVal(res.At(0).Type(), name, &facts)
	} else {
		r = x.E.freshVal(res, name, &facts)
	}
	for _, f := range facts {
		s.assume(f)
	}
	return r
}

func (x *Exec) callStatic(s *State, site ssa.Instruction, cc *ssa.CallCommon, fn *ssa.Function, binds, args []Val, k func(*State, Val)) {
	name := fn.String()
	if !isRepoFunc(fn) {
		if x.libCall(s, site, fn, name, args, k) {
			return // libCall invoked k itself
		}
		x.E.note("unmodelled library call " + name + ": results and reachable state havoc'd")
		for _, a := range args {
			x.havocReachable(s, a, x.siteTag(site), map[int]bool{}, 0)
		}
		r := x.freshResult(s, site, fn.Signature.Results())
		// library constructors (New…) with a single pointer result and no error
		// do not return nil (convention of the standard library and x/crypto)
		if strings.HasPrefix(fn.Name(), "New") && fn.Signature.Results().Len() == 1 {
			if pv, ok := r.(*PtrV); ok {
				s.assume(Not(pv.Nil))
				x.E.assumeNote("library constructor " + name + " returns a non-nil pointer")
			}
		}
		k(s, r)
		return
	}
	c := x.P.contractFor(fn)
	if c != nil && c.Inline {
		x.inline(s, site, fn, binds, args, k)
		return
	}
	if c == nil && os.Getenv("GOVC_NO_AUTOINLINE") == "" && x.autoInlinable(s, fn) {
		// a small helper without a contract is taken by its body rather than
		// havoc'd (extracting a helper is a common harmless edit)
		x.inline(s, site, fn, binds, args, k)
		return
	}
	x.applyContract(s, site, fn, c, fn.Signature, args, binds, funcKey(fn), k)
}

func (x *Exec) inline(s *State, site ssa.Instruction, fn *ssa.Function, binds, args []Val, k func(*State, Val)) {
	if len(s.frames) > x.inlineDepthMax {
		x.errorf("inline depth exceeded at %s", fnDisplay(fn))
		k(s, x.freshResult(s, site, fn.Signature.Results()))
		return
	}
	if fn.Blocks == nil {
		x.errorf("cannot inline %s: no body", fnDisplay(fn))
		k(s, x.freshResult(s, site, fn.Signature.Results()))
		return
	}
	fr := &Frame{fn: fn, regs: map[ssa.Value]Val{}, names: map[string]Val{}, prefix: s.top().prefix + funcKey(fn) + "/", depth: len(s.frames)}
	for i, p := range fn.Params {
		fr.regs[p] = args[i]
		fr.names[p.Name()] = args[i]
	}
	for i, fv := range fn.FreeVars {
		fr.regs[fv] = binds[i]
		fr.names["&"+fv.Name()] = binds[i]
	}
	fr.k = k
	s.frames = append(s.frames, fr)
	x.E.assumeNote("inlined (contract = body): " + fnDisplay(fn))
	x.runBlock(s, fn.Blocks[0], nil)
}

// calleeEnv builds the spec environment of a callee at a call site.
func (x *Exec) calleeEnv(s *State, fn *ssa.Function, c *Contract, args, binds []Val) *SpecEnv {
	env := x.specEnv(s, nil)
	env.vars = map[string]Val{}
	env.frame = nil
	env.pkgPath = c.Pkg
	if fn != nil {
		for i, p := range fn.Params {
			if i < len(args) {
				env.vars[p.Name()] = args[i]
			}
		}
		for i, fv := range fn.FreeVars {
			if i < len(binds) {
				env.vars["&"+fv.Name()] = binds[i]
			}
		}
		env.fn = fn
	} else {
		for i, a := range args {
			env.vars[fmt.Sprintf("arg%d", i)] = a
		}
	}
	return env
}

func (x *Exec) applyContract(s *State, site ssa.Instruction, fn *ssa.Function, c *Contract, sig *types.Signature, args, binds []Val, calleeName string, k func(*State, Val)) {
	tag := x.siteTag(site)
	if fn != nil && fn.Signature.Recv() != nil && len(args) > 0 {
		if pv, ok := args[0].(*PtrV); ok {
			nilT := pv.Nil
			if pv.Obj == nil {
				nilT = TTrue
			}
			x.oblige(s, "pre", fmt.Sprintf("%s/receiver-nonnil@%s", calleeName, x.label(s, site)), Not(nilT), site, "pointer receiver must not be nil")
			s.assume(Not(nilT))
		}
	}
	if fn != nil && len(args) > 0 {
		if tis := x.P.typeInvariants(fn); len(tis) > 0 {
			tenv := x.specEnv(s, nil)
			tenv.vars = map[string]Val{"self": args[0]}
			tenv.frame = nil
			tenv.pkgPath = fn.Pkg.Pkg.Path()
			for _, ti := range tis {
				t := tenv.evalBool(ti.Expr)
				x.oblige(s, "pre", fmt.Sprintf("%s/type-invariant:%s@%s", calleeName, ti.Label, x.label(s, site)), t, site, ti.Src)
				s.assume(t)
			}
		}
	}
	if fn != nil {
		for i, p := range fn.Params {
			if i < len(args) && isContextType(p.Type()) {
				if iv, ok := args[i].(*IfaceV); ok {
					x.oblige(s, "pre", fmt.Sprintf("%s/ctx-nonnil@%s", calleeName, x.label(s, site)), Not(iv.Nil), site, "context argument must not be nil")
				}
			}
		}
	}
	if c == nil {
		// default contract of an uncontracted repository function: no
		// precondition, arbitrary result, everything reachable from its
		// arguments may change. Its own body is checked separately.
		x.E.note("callee without contract " + calleeName + ": results and reachable state havoc'd")
		for _, a := range args {
			x.havocReachable(s, a, tag, map[int]bool{}, 0)
		}
		x.havocBinds(s, fn, binds, tag)
		k(s, x.freshResult(s, site, sig.Results()))
		return
	}
	if c.Unreachable {
		x.oblige(s, "pre", fmt.Sprintf("%s/never-called@%s", calleeName, x.label(s, site)), TFalse, site, "call of a function declared unreachable")
		return
	}
	x.callsSeen[shortPkg(c.Pkg)+"."+c.Key] = true
	if c.Trusted {
		x.trustedUsed[shortPkg(c.Pkg)+"."+c.Key] = true
	}
	env := x.calleeEnv(s, fn, c, args, binds)
	for _, l := range c.Lets {
		x.evalLet(env, l)
	}
	for i, r := range c.Requires {
		lbl := r.Label
		if lbl == "" {
			lbl = fmt.Sprintf("%d", i+1)
		}
		t := env.evalBool(r.Expr)
		x.oblige(s, "pre", fmt.Sprintf("%s/%s@%s", calleeName, lbl, x.label(s, site)), t, site, r.Src)
		s.assume(t)
	}
	x.checkCalleeChanInvs(s, site, c, env, calleeName)
	if s.dead {
		return
	}
	if c.NoReturn {
		x.oblige(s, "panic", fmt.Sprintf("%s@%s", calleeName, x.label(s, site)), TFalse, site, "call of a function that panics / does not return")
		return
	}
	old := s.clone()
	if c.HasAssigns {
		env.old = old
		var plain []string
		for _, a := range c.Assigns {
			if strings.TrimSpace(a) == "fs" {
				x.fsHavoc(s, tag)
				continue
			}
			if g := strings.TrimSpace(a); strings.HasPrefix(g, "g_") {
				s.ghost[g] = Var(g+"@"+tag, ghostSort(g))
				s.writes["ghost:var:"+g] = writeRec{obj: x.fsMarker()}
				continue
			}
			plain = append(plain, a)
		}
		recs := x.assignRecs(s, plain, env)
		for _, key := range sortedWriteKeys(recs) {
			x.havoc(s, recs[key], tag)
		}
		// the callee re-established the invariants of what it wrote
		for _, key := range sortedWriteKeys(recs) {
			x.assumeInvOfWritten(s, recs[key])
		}
	} else {
		for _, a := range args {
			x.havocReachable(s, a, tag, map[int]bool{}, 0)
		}
		x.havocBinds(s, fn, binds, tag)
	}
	// a callee may observe cancellation: the flag can only go up
	takesCtx := false
	if fn != nil {
		for _, p := range fn.Params {
			if isContextType(p.Type()) {
				takesCtx = true
			}
		}
	} else if sig != nil {
		for i := 0; i < sig.Params().Len(); i++ {
			if isContextType(sig.Params().At(i).Type()) {
				takesCtx = true
			}
		}
	}
	if takesCtx && !c.Pure {
		cur, _ := s.ghost["cancelled"].(*Term)
		if cur == nil {
			cur = TFalse
		}
		if !cur.IsTrue() {
			s.ghost["cancelled"] = Or(cur, Var(tag+".cancelled", SBool))
			s.writes["ghost:var:cancelled"] = writeRec{obj: x.fsMarker()}
		}
	}
	ret := x.freshResult(s, site, sig.Results())
	env2 := x.calleeEnv(s, fn, c, args, binds)
	env2.old = old
	for name, v := range env.lets {
		env2.setLet(name, v)
	}
	if len(c.Effects) > 0 {
		if fn != nil {
			env2.bindResults(fn, ret)
		} else {
			env2.bindResultsSig(sig, ret)
		}
		x.applyEffects(s, env2, c)
	}
	if fn != nil {
		env2.bindResults(fn, ret)
	} else {
		env2.bindResultsSig(sig, ret)
	}
	for _, e := range c.Ensures {
		if mentionsBind(c, e.Expr) {
			// about a value only the callee's own body can name (bind): says
			// nothing a caller could use
			continue
		}
		ret = env2.assumeEnsures(e.Expr, ret, sig)
	}
	if s.dead {
		// contradictory postcondition under this path: report loudly
		x.errorf("contract of %s is contradictory at %s", calleeName, x.posOf(site))
		return
	}
	k(s, ret)
}

// invoke handles interface method calls.
func (x *Exec) invoke(s *State, site ssa.Instruction, cc *ssa.CallCommon, recv Val, args []Val, k func(*State, Val)) {
	iv, _ := recv.(*IfaceV)
	mname := cc.Method.Name()
	if iv != nil {
		x.check(s, "nil", site, Not(iv.Nil), "method call on nil interface")
	}
	if iv != nil && iv.Dyn != nil {
		// known dynamic type: resolve statically
		ms := x.P.Prog.MethodSets.MethodSet(iv.Dyn)
		if sel := ms.Lookup(cc.Method.Pkg(), mname); sel != nil {
			if fn := x.P.Prog.MethodValue(sel); fn != nil && fn.Synthetic == "" {
				x.callStatic(s, site, cc, fn, nil, append([]Val{iv.V}, args...), k)
				return
			}
		}
	}
	// interface contract
	it := cc.Value.Type()
	if nt, ok := it.(*types.Named); ok && nt.Obj().Pkg() != nil {
		key := nt.Obj().Name() + "." + mname
		if c := x.P.ifaceContract(nt.Obj().Pkg().Path(), key); c != nil {
			x.applyContract(s, site, nil, c, cc.Signature(), append([]Val{recv}, args...), nil, key, k)
			return
		}
	}
	full := typeName(it) + "." + mname
	if ret, ok := x.libInvoke(s, site, full, recv, args); ok {
		k(s, ret)
		return
	}
	x.E.note("interface call " + full + " without contract: results and reachable state havoc'd")
	for _, a := range args {
		x.havocReachable(s, a, x.siteTag(site), map[int]bool{}, 0)
	}
	k(s, x.freshResult(s, site, cc.Signature().Results()))
}

// ---------------------------------------------------------------- builtins

func (x *Exec) builtin(s *State, site ssa.Instruction, b *ssa.Builtin, cc *ssa.CallCommon, args []Val) Val {
	switch b.Name() {
	case "len":
		return x.lenOf(s, args[0])
	case "cap":
		switch v := args[0].(type) {
		case *SliceV:
			return v.Cap
		case *ChanV:
			if v.Obj == nil {
				return Int(0)
			}
			cs := x.E.objVal(s, v.Obj).(*ChanStore)
			return Ite(v.Nil, Int(0), cs.Cap)
		case *ArrV:
			return v.N
		}
	case "append":
		return x.appendBuiltin(s, site, cc, args)
	case "copy":
		return x.copyBuiltin(s, site, args)
	case "close":
		if cc, ok := args[0].(*ChanV); ok {
			for _, ci := range x.chanInvsOf(s, cc) {
				if ci.Open {
					x.oblige(s, "chaninv", fmt.Sprintf("%s/never-closed@%s", ci.Pred.Label, x.label(s, site)), TFalse, site, "close of a channel declared never closed")
				}
			}
		}
		if c, cs := x.chanStore(s, args[0]); cs != nil {
			n := *cs
			n.Closed = TTrue
			s.heap[c.Obj.id] = &n
			x.recordWrite(s, c.Obj, nil)
		}
		x.E.note("close(ch): double close / close of nil channel not checked (needs cross-goroutine reasoning)")
		return nil
	case "delete":
		if mv, ok := args[0].(*MapV); ok && mv.Obj != nil {
			ms := x.E.objVal(s, mv.Obj).(*MapStore)
			kt := x.E.toTerm(s, args[1], mv.K)
			s.heap[mv.Obj.id] = &MapStore{Dom: Store(ms.Dom, kt, TFalse), Val: ms.Val, Len: Ite(Select(ms.Dom, kt), Sub(ms.Len, Int(1)), ms.Len)}
			x.recordWrite(s, mv.Obj, nil)
		}
		return nil
	case "print", "println":
		return nil
	case "min", "max":
		a, b2 := args[0].(*Term), args[1].(*Term)
		if b.Name() == "min" {
			return Ite(Le(a, b2), a, b2)
		}
		return Ite(Ge(a, b2), a, b2)
	case "recover":
		return &IfaceV{Nil: TTrue}
	case "ssa:wrapnilchk":
		x.nonNil(s, site, args[0])
		return args[0]
	}
	x.errorf("builtin %s unsupported", b.Name())
	return x.freshResult(s, site, cc.Signature().Results())
}

func (x *Exec) lenOf(s *State, v Val) *Term {
	switch t := v.(type) {
	case *Term:
		return StrLen(t)
	case *SliceV:
		return t.Len
	case *ArrV:
		return t.N
	case *MapV:
		if t.Obj == nil {
			return Int(0)
		}
		ms := x.E.objVal(s, t.Obj).(*MapStore)
		return Ite(t.Nil, Int(0), ms.Len)
	case *ChanV:
		if x.isSeq(s, t) {
			if _, cs := x.chanStore(s, t); cs != nil && cs.Len != nil {
				return cs.Len
			}
		}
		// the number of queued elements is not stable under concurrency:
		// every observation is a fresh value within [0, cap]
		x.E.nextObj++
		l := Var(fmt.Sprintf("chanlen%d", x.E.nextObj), SInt)
		s.assume(Ge(l, Int(0)))
		if t.Obj != nil {
			cs := x.E.objVal(s, t.Obj).(*ChanStore)
			s.assume(Le(l, cs.Cap))
		}
		return l
	case *PtrV:
		if at, ok := under(t.Elem).(*types.Array); ok {
			return Int(at.Len())
		}
	}
	x.errorf("len of %T", v)
	return Int(0)
}

// appendBuiltin models append with value semantics: the result is a fresh
// backing store holding the old elements followed by the new ones. Aliasing
// between the result and the first argument (in-place growth) is not modelled.
func (x *Exec) appendBuiltin(s *State, site ssa.Instruction, cc *ssa.CallCommon, args []Val) Val {
	x.E.assumeNote("append modelled with value semantics (result never aliases its argument)")
	a, _ := args[0].(*SliceV)
	if a == nil {
		x.errorf("append to %T", args[0])
		return x.freshResult(s, site, cc.Signature().Results())
	}
	name := x.siteTag(site)
	if isByteType(a.Elem) {
		var add *Term
		switch b := args[1].(type) {
		case *SliceV:
			add = x.E.sliceBytes(s, b)
		case *Term:
			add = b
		default:
			add = Str("")
		}
		cur := x.E.sliceBytes(s, a)
		o := x.E.storeObject(name+":app", types.NewArray(a.Elem, 0), false, "arr")
		nt := Concat(cur, add)
		s.heap[o.id] = &ArrV{Elem: a.Elem, IsStr: true, T: nt}
		ln := Add(a.Len, StrLen(add))
		return &SliceV{Nil: And(a.Nil, Eq(StrLen(add), Int(0))), Obj: o, Off: Int(0), Len: ln, Cap: x.freshCap(s, name, ln), Elem: a.Elem}
	}
	b, _ := args[1].(*SliceV)
	if b == nil {
		if t, ok := args[1].(*Term); ok && t.S == SString {
			x.errorf("append(non-byte, string)")
		}
		x.errorf("append second arg %T", args[1])
		return a
	}
	es := x.E.elemSort(a.Elem)
	var base *Term
	if a.Obj != nil {
		base = x.E.objVal(s, a.Obj).(*ArrV).T
	} else {
		base = ConstArr(SArr(SInt, es), x.E.zeroTerm(a.Elem))
	}
	o := x.E.storeObject(name+":app", types.NewArray(a.Elem, 0), false, "arr")
	var nt *Term
	// fast path: literal number of appended elements (the common `append(s, v)`)
	if b.Len.Op == "int" && b.Len.I.IsInt64() && b.Len.I.Int64() <= 8 && b.Obj != nil {
		bt := x.E.objVal(s, b.Obj).(*ArrV).T
		if a.Off.Op == "int" && a.Off.I.Sign() == 0 {
			nt = base
		} else {
			nt = x.shiftedArray(s, base, a.Off, a.Len, name+".base")
		}
		for j := int64(0); j < b.Len.I.Int64(); j++ {
			nt = Store(nt, Add(a.Len, Int(j)), Select(bt, Add(b.Off, Int(j))))
		}
	} else {
		// general: result[i] = i < len(a) ? a[off+i] : b[boff + i-len(a)]
		nt = Var(name+".app", SArr(SInt, es))
		i := Var("i!a", SInt)
		var bt *Term
		if b.Obj != nil {
			bt = x.E.objVal(s, b.Obj).(*ArrV).T
		} else {
			bt = ConstArr(SArr(SInt, es), x.E.zeroTerm(a.Elem))
		}
		s.assume(Forall([]*Term{i}, Implies(And(Ge(i, Int(0)), Lt(i, a.Len)), Eq(Select(nt, i), Select(base, Add(a.Off, i))))))
		s.assume(Forall([]*Term{i}, Implies(And(Ge(i, a.Len), Lt(i, Add(a.Len, b.Len))), Eq(Select(nt, i), Select(bt, Add(b.Off, Sub(i, a.Len)))))))
		// the same two facts indexed by the source position (so that a known
		// source element finds its place in the result)
		m := Var("m!a", SInt)
		s.assume(Forall([]*Term{m}, Implies(And(Ge(m, a.Off), Lt(m, Add(a.Off, a.Len))), Eq(Select(nt, Sub(m, a.Off)), Select(base, m)))))
		s.assume(Forall([]*Term{m}, Implies(And(Ge(m, b.Off), Lt(m, Add(b.Off, b.Len))), Eq(Select(nt, Add(a.Len, Sub(m, b.Off))), Select(bt, m)))))
	}
	s.heap[o.id] = &ArrV{Elem: a.Elem, T: nt}
	ln := Add(a.Len, b.Len)
	return &SliceV{Nil: And(a.Nil, Eq(b.Len, Int(0))), Obj: o, Off: Int(0), Len: ln, Cap: x.freshCap(s, name, ln), Elem: a.Elem}
}

func (x *Exec) freshCap(s *State, name string, ln *Term) *Term {
	c := Var(name+".cap", SInt)
	s.assume(Ge(c, ln))
	return c
}

func (x *Exec) shiftedArray(s *State, base, off, n *Term, name string) *Term {
	na := Var(name, base.S)
	i := Var("i!s", SInt)
	s.assume(Forall([]*Term{i}, Implies(And(Ge(i, Int(0)), Lt(i, n)), Eq(Select(na, i), Select(base, Add(off, i))))))
	return na
}

func (x *Exec) copyBuiltin(s *State, site ssa.Instruction, args []Val) Val {
	dst, _ := args[0].(*SliceV)
	if dst == nil {
		x.errorf("copy into %T", args[0])
		return Int(0)
	}
	var srcLen *Term
	var srcBytes *Term
	switch src := args[1].(type) {
	case *SliceV:
		srcLen = src.Len
		if isByteType(src.Elem) {
			srcBytes = x.E.sliceBytes(s, src)
		}
	case *Term:
		srcLen = StrLen(src)
		srcBytes = src
	default:
		x.errorf("copy from %T", args[1])
		return Int(0)
	}
	n := Ite(Le(srcLen, dst.Len), srcLen, dst.Len)
	if dst.Obj != nil {
		av := x.E.objVal(s, dst.Obj).(*ArrV)
		if av.IsStr && srcBytes != nil {
			total := StrLen(av.T)
			nt := Concat(Substr(av.T, Int(0), dst.Off), Substr(srcBytes, Int(0), n), Substr(av.T, Add(dst.Off, n), Sub(total, Add(dst.Off, n))))
			na := *av
			na.T = nt
			s.heap[dst.Obj.id] = &na
			x.recordWrite(s, dst.Obj, nil)
		} else {
			x.havoc(s, writeRec{obj: dst.Obj}, x.siteTag(site))
			x.E.note("copy into non-byte slice: destination havoc'd")
		}
	}
	return n
}

// ---------------------------------------------------------------- assigns

// assignRecs evaluates assigns expressions to location records.
func (x *Exec) assignRecs(s *State, exprs []string, env *SpecEnv) map[string]writeRec {
	out := map[string]writeRec{}
	for _, src := range exprs {
		src = strings.TrimSpace(src)
		if src == "" {
			continue
		}
		if strings.HasPrefix(src, "elems(") && strings.HasSuffix(src, ")") {
			// elems(m): the objects the values of map m point to (and what is
			// stored inside them), for every key: all objects materialised so far
			// whose name says they were read out of m, plus a marker that covers
			// the ones materialised later
			for _, mrec := range env.evalLoc("*" + strings.TrimSuffix(strings.TrimPrefix(src, "elems("), ")")) {
				prefix := strings.TrimLeft(mrec.obj.name, "*") + "["
				out["elems:"+prefix] = writeRec{obj: mrec.obj}
				for _, o := range x.E.objByName {
					if strings.HasPrefix(strings.TrimLeft(o.name, "*"), prefix) {
						r := writeRec{obj: o}
						out[r.key()] = r
					}
				}
			}
			continue
		}
		if strings.HasPrefix(src, "reach(") && strings.HasSuffix(src, ")") {
			// reach(e): every object reachable from the value of e through
			// pointers, interface values, slices, maps and struct fields (depth 4)
			// — "its own state", e.g. of a receiver of interface type
			e, err := parser.ParseExpr(strings.TrimSuffix(strings.TrimPrefix(src, "reach("), ")"))
			if err != nil {
				env.errf("assigns: %s: %v", src, err)
				continue
			}
			x.reachRecs(s, env.eval(e), map[int]bool{}, 0, out)
			continue
		}
		for _, rec := range env.evalLoc(src) {
			out[rec.key()] = rec
		}
	}
	return out
}

// reachRecs collects the storage objects reachable from v (see havocReachable).
func (x *Exec) reachRecs(s *State, v Val, seen map[int]bool, depth int, out map[string]writeRec) {
	if depth > 4 {
		return
	}
	add := func(o *Object) bool {
		if o == nil || seen[o.id] {
			return false
		}
		seen[o.id] = true
		r := writeRec{obj: o}
		out[r.key()] = r
		return true
	}
	switch p := v.(type) {
	case *PtrV:
		if add(p.Obj) {
			func() {
				defer func() { recover() }()
				x.reachRecs(s, x.load(s, p), seen, depth+1, out)
			}()
		}
	case *SliceV:
		add(p.Obj)
	case *MapV:
		add(p.Obj)
	case *ChanV:
		add(p.Obj)
	case *StructV:
		for _, f := range p.F {
			x.reachRecs(s, f, seen, depth+1, out)
		}
	case *IfaceV:
		if p.V != nil {
			x.reachRecs(s, p.V, seen, depth+1, out)
		}
	case *FuncV:
		for _, b := range p.Bind {
			x.reachRecs(s, b, seen, depth+1, out)
		}
	}
}

// havocBinds: a closure may change what its captured variables point to,
// and the captured variables themselves only if its body stores to them.
func (x *Exec) havocBinds(s *State, fn *ssa.Function, binds []Val, tag string) {
	for i, b := range binds {
		if fn != nil && i < len(fn.FreeVars) && !storesToFreeVar(fn, fn.FreeVars[i], 0) {
			if pv, ok := b.(*PtrV); ok && pv.Obj != nil {
				x.havocReachable(s, x.load(s, pv), tag, map[int]bool{}, 0)
				continue
			}
		}
		x.havocReachable(s, b, tag, map[int]bool{}, 0)
	}
}

func storesToFreeVar(fn *ssa.Function, fv *ssa.FreeVar, depth int) bool {
	if depth > 4 {
		return true
	}
	for _, b := range fn.Blocks {
		for _, instr := range b.Instrs {
			switch in := instr.(type) {
			case *ssa.Store:
				if in.Addr == ssa.Value(fv) {
					return true
				}
			case *ssa.MakeClosure:
				inner := in.Fn.(*ssa.Function)
				for j, bd := range in.Bindings {
					if bd == ssa.Value(fv) && j < len(inner.FreeVars) && storesToFreeVar(inner, inner.FreeVars[j], depth+1) {
						return true
					}
				}
			case *ssa.Call:
				for _, a := range in.Call.Args {
					if a == ssa.Value(fv) {
						return true // address escapes
					}
				}
			}
		}
	}
	return false
}

func (x *Exec) checkCalleeChanInvs(s *State, site ssa.Instruction, c *Contract, env *SpecEnv, calleeName string) {
	for _, ci := range c.ChanInvs {
		env.quiet = true
		v := env.eval(ci.ChanExpr)
		env.quiet = false
		cv, ok := v.(*ChanV)
		if !ok || cv.Obj == nil {
			continue
		}
		found := x.chanHasInv(s, cv, ci)
		if !found {
			debugChan(x, s, cv, ci, calleeName)
		}
		x.oblige(s, "pre", fmt.Sprintf("%s/chaninv:%s@%s", calleeName, ci.Pred.Label, x.label(s, site)), Bool(found), site, "the channel passed must carry the invariant the callee relies on: "+ci.sig())
	}
}

// chanHasInv: the channel carries need, or is a channel made here on which
// nothing was sent yet (which then adopts it).
func (x *Exec) chanHasInv(s *State, cv *ChanV, need *ChanInvDecl) bool {
	for _, have := range x.chanInvsOf(s, cv) {
		if have.satisfies(need) {
			return true
		}
	}
	if cs, ok := x.E.objVal(s, cv.Obj).(*ChanStore); ok && cs.Local && cs.SentCnt.Op == "int" && cs.SentCnt.I.Sign() == 0 {
		n := *cs
		n.Invs = append(append([]*ChanInvDecl(nil), cs.Invs...), need)
		s.heap[cv.Obj.id] = &n
		return true
	}
	return false
}

func debugChan(x *Exec, s *State, cv *ChanV, need *ChanInvDecl, where string) {
	if os.Getenv("GOVC_DEBUGCHAN") == "" || len(x.dry) > 0 {
		return
	}
	cs, _ := x.E.objVal(s, cv.Obj).(*ChanStore)
	fmt.Fprintf(os.Stderr, "chan %s need=%s @%s: engine=%d store=%v trace=%v\n", cv.Obj.name, need.sig(), where, len(x.E.chanInvs[cv.Obj.id]), cs, s.trace)
}

func mentionsBind(c *Contract, e ast.Expr) bool {
	if len(c.Binds) == 0 {
		return false
	}
	hit := false
	ast.Inspect(e, func(n ast.Node) bool {
		if id, ok := n.(*ast.Ident); ok {
			for _, b := range c.Binds {
				if b.Name == id.Name || (strings.HasPrefix(id.Name, b.Name) && len(id.Name) == len(b.Name)+1 && id.Name[len(b.Name)] >= '0' && id.Name[len(b.Name)] <= '9') {
					hit = true
				}
			}
		}
		return !hit
	})
	return hit
}

// autoInlinable: a repository function without contract that is small,
// loop-free, without go / defer / closures and not already on the stack.
func (x *Exec) autoInlinable(s *State, fn *ssa.Function) bool {
	if fn.Blocks == nil || len(s.frames) >= 3 || fn.Synthetic != "" {
		return false
	}
	for _, fr := range s.frames {
		if fr.fn == fn {
			return false
		}
	}
	if len(x.loopsOf(fn)) > 0 {
		return false
	}
	return smallStraight(fn)
}

// smallStraight: the static part of autoInlinable (loop-freedom is checked by
// the caller): at most 200 instructions in 40 blocks, no go / defer / closure.
func smallStraight(fn *ssa.Function) bool {
	if fn.Blocks == nil || fn.Synthetic != "" {
		return false
	}
	n := 0
	for _, b := range fn.Blocks {
		for _, in := range b.Instrs {
			n++
			switch in.(type) {
			case *ssa.Go, *ssa.Defer, *ssa.MakeClosure:
				return false
			}
		}
	}
	return n <= 200 && len(fn.Blocks) <= 40
}

func hasBackEdge(fn *ssa.Function) bool {
	for _, b := range fn.Blocks {
		for _, succ := range b.Succs {
			if succ.Dominates(b) {
				return true
			}
		}
	}
	return false
}

// checkParamsUnchanged: an at-call / at-send clause that names a parameter
// means the value the caller passed. If the function has assigned to that
// parameter by the time the clause is evaluated, the bare name would silently
// denote the new value and the clause would say less than it was written to
// say; the contract must then say old(p) (entry value) or cur(p) (current).
func (x *Exec) checkParamsUnchanged(s *State, e ast.Expr, what string) {
	if len(s.frames) == 0 || s.top().fn != x.fn {
		return
	}
	var visit func(n ast.Node) bool
	visit = func(n ast.Node) bool {
		switch t := n.(type) {
		case *ast.CallExpr:
			if id, ok := t.Fun.(*ast.Ident); ok && (id.Name == "old" || id.Name == "cur") {
				return false
			}
		case *ast.SelectorExpr:
			ast.Inspect(t.X, visit)
			return false
		case *ast.Ident:
			entry, isParam := x.params[t.Name]
			if !isParam {
				return true
			}
			cur, ok := s.top().names[t.Name]
			if !ok {
				return true
			}
			same := entry == cur
			if et, ok := entry.(*Term); ok {
				if ct, ok := cur.(*Term); ok {
					same = termEq(et, ct)
				}
			}
			if sv, ok := entry.(*SliceV); ok {
				if cv, ok := cur.(*SliceV); ok {
					same = sv.Obj == cv.Obj && termEq(sv.Off, cv.Off) && termEq(sv.Len, cv.Len)
				}
			}
			if pv, ok := entry.(*PtrV); ok {
				if cv, ok := cur.(*PtrV); ok {
					same = pv.Obj == cv.Obj
				}
			}
			if !same {
				x.errorf("%s names parameter %s, which %s has assigned to before this point: write old(%s) for the value passed in or cur(%s) for the current one", what, t.Name, fnDisplay(x.fn), t.Name, t.Name)
			}
		}
		return true
	}
	ast.Inspect(e, visit)
}
