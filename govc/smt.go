package main

// SMT term layer: sorts, terms, a small simplifier, SMT-LIB printing.

import (
	"fmt"
	"math/big"
	"sort"
	"strconv"
	"strings"
	"sync"
)

// Sort is an SMT sort.
type Sort struct {
	Name      string // Int Bool String Real Array, or a declared (uninterpreted / datatype) sort name
	Idx, Elem *Sort  // for Array
}

var (
	SInt    = &Sort{Name: "Int"}
	SBool   = &Sort{Name: "Bool"}
	SString = &Sort{Name: "String"}
	SReal   = &Sort{Name: "Real"}
)

var arrSorts = map[string]*Sort{}
var regMu sync.Mutex

func SArr(idx, elem *Sort) *Sort {
	regMu.Lock()
	defer regMu.Unlock()
	k := idx.String() + "->" + elem.String()
	if s, ok := arrSorts[k]; ok {
		return s
	}
	s := &Sort{Name: "Array", Idx: idx, Elem: elem}
	arrSorts[k] = s
	return s
}

var uninterpSorts = map[string]*Sort{}

// SUninterp returns a declared uninterpreted sort.
func SUninterp(name string) *Sort {
	regMu.Lock()
	defer regMu.Unlock()
	if s, ok := uninterpSorts[name]; ok {
		return s
	}
	s := &Sort{Name: name}
	uninterpSorts[name] = s
	return s
}

func (s *Sort) String() string {
	if s == nil {
		return "<nil-sort>"
	}
	if s.Name == "Array" {
		return "(Array " + s.Idx.String() + " " + s.Elem.String() + ")"
	}
	return s.Name
}

func (s *Sort) Eq(o *Sort) bool { return s.String() == o.String() }

// Term is an SMT term.
type Term struct {
	Op   string // see constructors
	Args []*Term
	S    *Sort
	Name string   // for "var", "uf", "dt" ops
	I    *big.Int // for "int"
	Str  string   // for "str" literal (raw bytes), "real" literal text
	B    bool     // for "bool"
	// quantifier bound vars
	Bound []*Term
}

var (
	TTrue  = &Term{Op: "bool", B: true, S: SBool}
	TFalse = &Term{Op: "bool", B: false, S: SBool}
)

func Bool(b bool) *Term {
	if b {
		return TTrue
	}
	return TFalse
}
func Int(n int64) *Term     { return &Term{Op: "int", I: big.NewInt(n), S: SInt} }
func IntB(n *big.Int) *Term { return &Term{Op: "int", I: new(big.Int).Set(n), S: SInt} }
func Str(s string) *Term    { return &Term{Op: "str", Str: s, S: SString} }
func RealLit(s string) *Term {
	return &Term{Op: "real", Str: s, S: SReal}
}
func Var(name string, s *Sort) *Term { return &Term{Op: "var", Name: name, S: s} }

func (t *Term) IsTrue() bool   { return t.Op == "bool" && t.B }
func (t *Term) IsFalse() bool  { return t.Op == "bool" && !t.B }
func (t *Term) IsIntLit() bool { return t.Op == "int" }
func (t *Term) IsStrLit() bool { return t.Op == "str" }

func app(op string, s *Sort, args ...*Term) *Term {
	for i, a := range args {
		if a == nil {
			panic(fmt.Sprintf("nil arg %d in %s", i, op))
		}
	}
	return &Term{Op: op, Args: args, S: s}
}

// UF applies an uninterpreted function (declared on demand from arg sorts).
func UF(name string, s *Sort, args ...*Term) *Term {
	t := app("uf", s, args...)
	t.Name = name
	return t
}

func termEq(a, b *Term) bool {
	if a == b {
		return true
	}
	if a.Op != b.Op || len(a.Args) != len(b.Args) || a.Name != b.Name {
		return false
	}
	switch a.Op {
	case "int":
		return a.I.Cmp(b.I) == 0
	case "str", "real":
		return a.Str == b.Str
	case "bool":
		return a.B == b.B
	case "forall", "exists":
		return false
	}
	for i := range a.Args {
		if !termEq(a.Args[i], b.Args[i]) {
			return false
		}
	}
	return true
}

func Not(a *Term) *Term {
	if a.S != SBool {
		panic("Not of non-bool " + a.String())
	}
	if a.Op == "bool" {
		return Bool(!a.B)
	}
	if a.Op == "not" {
		return a.Args[0]
	}
	return app("not", SBool, a)
}

func And(as ...*Term) *Term {
	var out []*Term
	for _, a := range as {
		if a == nil {
			panic("And nil")
		}
		if a.S != SBool {
			panic("And of non-bool " + a.String())
		}
		if a.IsTrue() {
			continue
		}
		if a.IsFalse() {
			return TFalse
		}
		if a.Op == "and" {
			out = append(out, a.Args...)
			continue
		}
		out = append(out, a)
	}
	switch len(out) {
	case 0:
		return TTrue
	case 1:
		return out[0]
	}
	return app("and", SBool, out...)
}

func Or(as ...*Term) *Term {
	var out []*Term
	for _, a := range as {
		if a.S != SBool {
			panic("Or of non-bool " + a.String())
		}
		if a.IsFalse() {
			continue
		}
		if a.IsTrue() {
			return TTrue
		}
		if a.Op == "or" {
			out = append(out, a.Args...)
			continue
		}
		out = append(out, a)
	}
	switch len(out) {
	case 0:
		return TFalse
	case 1:
		return out[0]
	}
	return app("or", SBool, out...)
}

func Implies(a, b *Term) *Term {
	if a.IsTrue() {
		return b
	}
	if a.IsFalse() || b.IsTrue() {
		return TTrue
	}
	if b.IsFalse() {
		return Not(a)
	}
	return app("=>", SBool, a, b)
}

func Ite(c, a, b *Term) *Term {
	if c.IsTrue() {
		return a
	}
	if c.IsFalse() {
		return b
	}
	if termEq(a, b) {
		return a
	}
	if a.S == SBool {
		if a.IsTrue() && b.IsFalse() {
			return c
		}
		if a.IsFalse() && b.IsTrue() {
			return Not(c)
		}
	}
	if (a.S == SReal && b.S == SInt) || (a.S == SInt && b.S == SReal) {
		a, b = ToReal(a), ToReal(b)
	}
	if !a.S.Eq(b.S) {
		panic(fmt.Sprintf("Ite sort mismatch %s vs %s: %s / %s", a.S, b.S, a, b))
	}
	return app("ite", a.S, c, a, b)
}

func Eq(a, b *Term) *Term {
	if !a.S.Eq(b.S) {
		// Int/Real coercion
		if a.S == SInt && b.S == SReal {
			a = ToReal(a)
		} else if a.S == SReal && b.S == SInt {
			b = ToReal(b)
		} else {
			panic(fmt.Sprintf("Eq sort mismatch %s vs %s: %s = %s", a.S, b.S, a, b))
		}
	}
	if termEq(a, b) {
		return TTrue
	}
	if a.Op == "int" && b.Op == "int" {
		return Bool(a.I.Cmp(b.I) == 0)
	}
	if a.Op == "str" && b.Op == "str" {
		return Bool(a.Str == b.Str)
	}
	if a.Op == "bool" && b.Op == "bool" {
		return Bool(a.B == b.B)
	}
	if a.S == SBool {
		if b.IsTrue() {
			return a
		}
		if b.IsFalse() {
			return Not(a)
		}
		if a.IsTrue() {
			return b
		}
		if a.IsFalse() {
			return Not(b)
		}
	}
	return app("=", SBool, a, b)
}

func Neq(a, b *Term) *Term { return Not(Eq(a, b)) }

func ToReal(a *Term) *Term {
	if a.S == SReal {
		return a
	}
	if a.Op == "int" {
		return RealLit(a.I.String() + ".0")
	}
	return app("to_real", SReal, a)
}

func arithSort(a, b *Term) (*Term, *Term, *Sort) {
	if a.S == SReal || b.S == SReal {
		return ToReal(a), ToReal(b), SReal
	}
	if a.S != SInt || b.S != SInt {
		panic(fmt.Sprintf("arith on non-numeric %s(%s) %s(%s)", a, a.S, b, b.S))
	}
	return a, b, SInt
}

func Add(a, b *Term) *Term {
	a, b, s := arithSort(a, b)
	if a.Op == "int" && b.Op == "int" {
		return IntB(new(big.Int).Add(a.I, b.I))
	}
	if a.Op == "int" && a.I.Sign() == 0 {
		return b
	}
	if b.Op == "int" && b.I.Sign() == 0 {
		return a
	}
	// (x + c1) + c2
	if b.Op == "int" && a.Op == "+" && len(a.Args) == 2 && a.Args[1].Op == "int" {
		return Add(a.Args[0], IntB(new(big.Int).Add(a.Args[1].I, b.I)))
	}
	if b.Op == "int" && a.Op == "-" && len(a.Args) == 2 && a.Args[1].Op == "int" {
		return Add(a.Args[0], IntB(new(big.Int).Sub(b.I, a.Args[1].I)))
	}
	if b.Op == "int" && b.I.Sign() < 0 {
		return app("-", s, a, IntB(new(big.Int).Neg(b.I)))
	}
	if s == SInt {
		if t := linCancel(a, b, 1); t != nil {
			return t
		}
	}
	return app("+", s, a, b)
}

// linCancel returns the canonical linear form of a + sign*b when that form is
// smaller than the plain term (atoms cancel or constants fold), else nil.
func linCancel(a, b *Term, sign int64) *Term {
	type atom struct {
		t    *Term
		coef *big.Int
	}
	var atoms []*atom
	idx := map[string]*atom{}
	konst := new(big.Int)
	leaves, consts := 0, 0
	var walk func(t *Term, c *big.Int) bool
	walk = func(t *Term, c *big.Int) bool {
		switch {
		case t.Op == "int":
			consts++
			konst.Add(konst, new(big.Int).Mul(c, t.I))
		case t.Op == "+" && t.S == SInt:
			for _, x := range t.Args {
				if !walk(x, c) {
					return false
				}
			}
		case t.Op == "-" && t.S == SInt && len(t.Args) == 2:
			if !walk(t.Args[0], c) || !walk(t.Args[1], new(big.Int).Neg(c)) {
				return false
			}
		case t.Op == "-" && t.S == SInt && len(t.Args) == 1:
			return walk(t.Args[0], new(big.Int).Neg(c))
		case t.Op == "*" && len(t.Args) == 2 && t.Args[0].Op == "int":
			return walk(t.Args[1], new(big.Int).Mul(c, t.Args[0].I))
		case t.Op == "*" && len(t.Args) == 2 && t.Args[1].Op == "int":
			return walk(t.Args[0], new(big.Int).Mul(c, t.Args[1].I))
		default:
			if t.S != SInt {
				return false
			}
			leaves++
			k := t.String()
			if at := idx[k]; at != nil {
				at.coef.Add(at.coef, c)
			} else {
				at = &atom{t, new(big.Int).Set(c)}
				idx[k] = at
				atoms = append(atoms, at)
			}
		}
		return true
	}
	if !walk(a, big.NewInt(1)) || !walk(b, big.NewInt(sign)) {
		return nil
	}
	live := 0
	for _, at := range atoms {
		if at.coef.Sign() != 0 {
			live++
		}
	}
	if live >= leaves && consts <= 1 {
		return nil
	}
	var res *Term
	term := func(at *atom, abs *big.Int) *Term {
		if abs.Cmp(big.NewInt(1)) == 0 {
			return at.t
		}
		return app("*", SInt, IntB(abs), at.t)
	}
	for _, at := range atoms {
		if at.coef.Sign() > 0 {
			if res == nil {
				res = term(at, at.coef)
			} else {
				res = app("+", SInt, res, term(at, at.coef))
			}
		}
	}
	for _, at := range atoms {
		if at.coef.Sign() < 0 {
			abs := new(big.Int).Neg(at.coef)
			if res == nil {
				res = app("-", SInt, Int(0), term(at, abs))
			} else {
				res = app("-", SInt, res, term(at, abs))
			}
		}
	}
	switch {
	case res == nil:
		return IntB(konst)
	case konst.Sign() > 0:
		return app("+", SInt, res, IntB(konst))
	case konst.Sign() < 0:
		return app("-", SInt, res, IntB(new(big.Int).Neg(konst)))
	}
	return res
}

func Sub(a, b *Term) *Term {
	a, b, s := arithSort(a, b)
	if a.Op == "int" && b.Op == "int" {
		return IntB(new(big.Int).Sub(a.I, b.I))
	}
	if b.Op == "int" {
		return Add(a, IntB(new(big.Int).Neg(b.I)))
	}
	if termEq(a, b) && s == SInt {
		return Int(0)
	}
	if s == SInt {
		if t := linCancel(a, b, -1); t != nil {
			return t
		}
	}
	return app("-", s, a, b)
}

func Mul(a, b *Term) *Term {
	a, b, s := arithSort(a, b)
	if a.Op == "int" && b.Op == "int" {
		return IntB(new(big.Int).Mul(a.I, b.I))
	}
	return app("*", s, a, b)
}

// Div is Go's truncated integer division expressed over SMT's floor div;
// for reals it is exact division.
func Div(a, b *Term) *Term {
	a, b, s := arithSort(a, b)
	if s == SReal {
		return app("/", SReal, a, b)
	}
	if a.Op == "int" && b.Op == "int" && b.I.Sign() != 0 {
		return IntB(new(big.Int).Quo(a.I, b.I))
	}
	// truncated division: sign-corrected
	q := app("div", SInt, a, b)
	// if a >= 0: SMT div (euclidean) equals truncated for b>0 and b<0.
	// if a < 0: trunc(a/b) = -( (-a) div b ) for b > 0 ; = (-a) div (-b) for b<0
	negA := Sub(Int(0), a)
	return Ite(Ge(a, Int(0)), q, Ite(Gt(b, Int(0)), Sub(Int(0), app("div", SInt, negA, b)), app("div", SInt, negA, Sub(Int(0), b))))
}

// Mod is Go's remainder (sign follows dividend).
func Mod(a, b *Term) *Term {
	if a.Op == "int" && b.Op == "int" && b.I.Sign() != 0 {
		return IntB(new(big.Int).Rem(a.I, b.I))
	}
	return Sub(a, Mul(b, Div(a, b)))
}

func cmp(op string, a, b *Term) *Term {
	a, b, _ = arithSort(a, b)
	if a.Op == "int" && b.Op == "int" {
		c := a.I.Cmp(b.I)
		switch op {
		case "<":
			return Bool(c < 0)
		case "<=":
			return Bool(c <= 0)
		case ">":
			return Bool(c > 0)
		case ">=":
			return Bool(c >= 0)
		}
	}
	if termEq(a, b) {
		return Bool(op == "<=" || op == ">=")
	}
	return app(op, SBool, a, b)
}
func Lt(a, b *Term) *Term { return cmp("<", a, b) }
func Le(a, b *Term) *Term { return cmp("<=", a, b) }
func Gt(a, b *Term) *Term { return cmp(">", a, b) }
func Ge(a, b *Term) *Term { return cmp(">=", a, b) }

// ---- strings ----

func StrLen(a *Term) *Term {
	if a.Op == "str" {
		return Int(int64(len(a.Str)))
	}
	if a.Op == "str.++" {
		var sum *Term = Int(0)
		for _, x := range a.Args {
			sum = Add(StrLen(x), sum)
		}
		return sum
	}
	return app("str.len", SInt, a)
}

func Concat(as ...*Term) *Term {
	var out []*Term
	for _, a := range as {
		if a.S != SString {
			panic("Concat of non-string " + a.String())
		}
		if a.Op == "str" && a.Str == "" {
			continue
		}
		if a.Op == "str.++" {
			for _, x := range a.Args {
				out = appendConcat(out, x)
			}
			continue
		}
		out = appendConcat(out, a)
	}
	switch len(out) {
	case 0:
		return Str("")
	case 1:
		return out[0]
	}
	return app("str.++", SString, out...)
}

func appendConcat(out []*Term, a *Term) []*Term {
	if n := len(out); n > 0 && out[n-1].Op == "str" && a.Op == "str" {
		out[n-1] = Str(out[n-1].Str + a.Str)
		return out
	}
	return append(out, a)
}

func StrAt(s, i *Term) *Term {
	if s.Op == "str" && i.Op == "int" && i.I.IsInt64() {
		k := i.I.Int64()
		if k >= 0 && k < int64(len(s.Str)) {
			return Str(s.Str[k : k+1])
		}
	}
	return app("str.at", SString, s, i)
}
func StrCode(s *Term) *Term {
	if s.Op == "str" && len(s.Str) == 1 {
		return Int(int64(s.Str[0]))
	}
	if s.Op == "str.from_code" {
		// valid only when in range; callers constrain bytes to 0..255
		return s.Args[0]
	}
	return app("str.to_code", SInt, s)
}
func StrFromCode(c *Term) *Term {
	if c.Op == "int" && c.I.IsInt64() && c.I.Int64() >= 0 && c.I.Int64() < 256 {
		return Str(string([]byte{byte(c.I.Int64())}))
	}
	return app("str.from_code", SString, c)
}
func Substr(s, off, n *Term) *Term {
	if s.Op == "str" && off.Op == "int" && n.Op == "int" && off.I.IsInt64() && n.I.IsInt64() {
		o, l := off.I.Int64(), n.I.Int64()
		if o >= 0 && l >= 0 && o+l <= int64(len(s.Str)) {
			return Str(s.Str[o : o+l])
		}
	}
	if off.Op == "int" && off.I.Sign() == 0 && termEq(n, StrLen(s)) {
		return s
	}
	if n.Op == "int" && n.I.Sign() == 0 {
		return Str("")
	}
	return app("str.substr", SString, s, off, n)
}
func StrPrefixOf(p, s *Term) *Term {
	if p.Op == "str" && s.Op == "str" {
		return Bool(strings.HasPrefix(s.Str, p.Str))
	}
	return app("str.prefixof", SBool, p, s)
}
func StrSuffixOf(p, s *Term) *Term {
	if p.Op == "str" && s.Op == "str" {
		return Bool(strings.HasSuffix(s.Str, p.Str))
	}
	return app("str.suffixof", SBool, p, s)
}
func StrContains(s, sub *Term) *Term {
	if sub.Op == "str" && s.Op == "str" {
		return Bool(strings.Contains(s.Str, sub.Str))
	}
	return app("str.contains", SBool, s, sub)
}
func StrIndexOf(s, sub, from *Term) *Term {
	return app("str.indexof", SInt, s, sub, from)
}
func StrReplaceAll(s, a, b *Term) *Term { return app("str.replace_all", SString, s, a, b) }
func StrFromInt(i *Term) *Term {
	if i.Op == "int" && i.I.Sign() >= 0 {
		return Str(i.I.String())
	}
	return app("str.from_int", SString, i)
}

// ---- arrays ----

func Select(a, i *Term) *Term {
	if a.S.Name != "Array" {
		panic("Select on non-array " + a.String())
	}
	// read-over-write with syntactically equal / distinct literal index
	for a.Op == "store" {
		if termEq(a.Args[1], i) {
			return a.Args[2]
		}
		if a.Args[1].Op == "int" && i.Op == "int" {
			a = a.Args[0]
			continue
		}
		if a.Args[1].Op == "str" && i.Op == "str" {
			a = a.Args[0]
			continue
		}
		break
	}
	if a.Op == "constarr" {
		return a.Args[0]
	}
	return app("select", a.S.Elem, a, i)
}
func Store(a, i, v *Term) *Term {
	if a.S.Name != "Array" {
		panic("Store on non-array " + a.String())
	}
	if !a.S.Elem.Eq(v.S) {
		panic(fmt.Sprintf("Store elem sort mismatch: array %s value %s (%s)", a.S, v.S, v))
	}
	return app("store", a.S, a, i, v)
}
func ConstArr(s *Sort, v *Term) *Term {
	t := app("constarr", s, v)
	return t
}

// ---- quantifiers ----

func Forall(bound []*Term, body *Term) *Term {
	if body.IsTrue() {
		return TTrue
	}
	t := app("forall", SBool, body)
	t.Bound = bound
	return t
}
func Exists(bound []*Term, body *Term) *Term {
	if body.IsFalse() {
		return TFalse
	}
	t := app("exists", SBool, body)
	t.Bound = bound
	return t
}

// ---- datatypes ----

// DTDecl describes a declared record datatype.
type DTDecl struct {
	Name   string
	Fields []string
	Sorts  []*Sort
	S      *Sort
}

var dtDecls = map[string]*DTDecl{}
var dtOrder []string

func DeclareDT(name string, fields []string, sorts []*Sort) *DTDecl {
	regMu.Lock()
	defer regMu.Unlock()
	if d, ok := dtDecls[name]; ok {
		return d
	}
	d := &DTDecl{Name: name, Fields: fields, Sorts: sorts, S: &Sort{Name: name}}
	dtDecls[name] = d
	dtOrder = append(dtOrder, name)
	return d
}

func (d *DTDecl) Mk(args ...*Term) *Term {
	if len(args) != len(d.Fields) {
		panic("DT mk arity " + d.Name)
	}
	for i, a := range args {
		if !a.S.Eq(d.Sorts[i]) {
			panic(fmt.Sprintf("DT %s field %s sort %s got %s", d.Name, d.Fields[i], d.Sorts[i], a.S))
		}
	}
	t := app("dtmk", d.S, args...)
	t.Name = d.Name
	return t
}

func (d *DTDecl) Sel(i int, x *Term) *Term {
	if x.Op == "dtmk" && x.Name == d.Name {
		return x.Args[i]
	}
	t := app("dtsel", d.Sorts[i], x)
	t.Name = d.Name + "_" + d.Fields[i]
	return t
}

// ---- printing ----

func smtStringLit(s string) string {
	var sb strings.Builder
	sb.WriteByte('"')
	for i := 0; i < len(s); i++ {
		c := s[i]
		switch {
		case c == '"':
			sb.WriteString(`""`)
		case c == '\\':
			sb.WriteString(`\u{5c}`)
		case c >= 0x20 && c < 0x7f:
			sb.WriteByte(c)
		default:
			fmt.Fprintf(&sb, `\u{%x}`, c)
		}
	}
	sb.WriteByte('"')
	return sb.String()
}

func smtSym(name string) string {
	ok := true
	for _, r := range name {
		if !(r >= 'a' && r <= 'z' || r >= 'A' && r <= 'Z' || r >= '0' && r <= '9' || strings.ContainsRune("_.$!@%&^~?/<>-+*=", r)) {
			ok = false
			break
		}
	}
	if ok && len(name) > 0 && !(name[0] >= '0' && name[0] <= '9') {
		return name
	}
	return "|" + strings.NewReplacer("|", "_", "\\", "_").Replace(name) + "|"
}

func (t *Term) String() string {
	var sb strings.Builder
	t.write(&sb)
	return sb.String()
}

func (t *Term) write(sb *strings.Builder) {
	switch t.Op {
	case "var":
		sb.WriteString(smtSym(t.Name))
	case "int":
		if t.I.Sign() < 0 {
			sb.WriteString("(- " + new(big.Int).Neg(t.I).String() + ")")
		} else {
			sb.WriteString(t.I.String())
		}
	case "bool":
		sb.WriteString(strconv.FormatBool(t.B))
	case "str":
		sb.WriteString(smtStringLit(t.Str))
	case "real":
		if strings.HasPrefix(t.Str, "-") {
			sb.WriteString("(- " + t.Str[1:] + ")")
		} else {
			sb.WriteString(t.Str)
		}
	case "constarr":
		sb.WriteString("((as const " + t.S.String() + ") ")
		t.Args[0].write(sb)
		sb.WriteString(")")
	case "uf":
		if len(t.Args) == 0 {
			sb.WriteString(smtSym(t.Name))
			return
		}
		sb.WriteString("(" + smtSym(t.Name))
		for _, a := range t.Args {
			sb.WriteByte(' ')
			a.write(sb)
		}
		sb.WriteByte(')')
	case "dtmk":
		if len(t.Args) == 0 {
			sb.WriteString("mk_" + t.Name)
			return
		}
		sb.WriteString("(mk_" + t.Name)
		for _, a := range t.Args {
			sb.WriteByte(' ')
			a.write(sb)
		}
		sb.WriteByte(')')
	case "dtsel":
		sb.WriteString("(" + t.Name + " ")
		t.Args[0].write(sb)
		sb.WriteByte(')')
	case "forall", "exists":
		sb.WriteString("(" + t.Op + " (")
		for _, b := range t.Bound {
			sb.WriteString("(" + smtSym(b.Name) + " " + b.S.String() + ")")
		}
		sb.WriteString(") ")
		t.Args[0].write(sb)
		sb.WriteByte(')')
	default:
		sb.WriteString("(" + t.Op)
		for _, a := range t.Args {
			sb.WriteByte(' ')
			a.write(sb)
		}
		sb.WriteByte(')')
	}
}

// collectDecls gathers free variables, uninterpreted functions and sorts.
type declSet struct {
	vars    map[string]*Sort
	ufs     map[string]string // name -> signature text
	sorts   map[string]bool
	dts     map[string]bool
	strings bool
	quant   bool
	reals   bool
}

func newDeclSet() *declSet {
	return &declSet{vars: map[string]*Sort{}, ufs: map[string]string{}, sorts: map[string]bool{}, dts: map[string]bool{}}
}

func (d *declSet) sort(s *Sort) {
	switch s.Name {
	case "Int", "Bool":
	case "Real":
		d.reals = true
	case "String":
		d.strings = true
	case "Array":
		d.sort(s.Idx)
		d.sort(s.Elem)
	default:
		regMu.Lock()
		dt, ok := dtDecls[s.Name]
		regMu.Unlock()
		if ok {
			if !d.dts[s.Name] {
				d.dts[s.Name] = true
				for _, fs := range dt.Sorts {
					d.sort(fs)
				}
			}
		} else {
			d.sorts[s.Name] = true
		}
	}
}

func (d *declSet) walk(t *Term, bound map[string]bool) {
	d.sort(t.S)
	switch t.Op {
	case "var":
		if !bound[t.Name] {
			d.vars[t.Name] = t.S
		}
	case "uf":
		var sig strings.Builder
		sig.WriteString("(")
		for i, a := range t.Args {
			if i > 0 {
				sig.WriteByte(' ')
			}
			sig.WriteString(a.S.String())
		}
		sig.WriteString(") " + t.S.String())
		d.ufs[t.Name] = sig.String()
	case "forall", "exists":
		d.quant = true
		nb := map[string]bool{}
		for k := range bound {
			nb[k] = true
		}
		for _, b := range t.Bound {
			nb[b.Name] = true
			d.sort(b.S)
		}
		d.walk(t.Args[0], nb)
		return
	}
	for _, a := range t.Args {
		d.walk(a, bound)
	}
}

func (d *declSet) text() string {
	regMu.Lock()
	defer regMu.Unlock()
	var sb strings.Builder
	var names []string
	for n := range d.sorts {
		names = append(names, n)
	}
	sort.Strings(names)
	for _, n := range names {
		fmt.Fprintf(&sb, "(declare-sort %s 0)\n", n)
	}
	for _, n := range dtOrder {
		if !d.dts[n] {
			continue
		}
		dt := dtDecls[n]
		fmt.Fprintf(&sb, "(declare-datatypes ((%s 0)) (((mk_%s", n, n)
		for i, f := range dt.Fields {
			fmt.Fprintf(&sb, " (%s_%s %s)", n, f, dt.Sorts[i])
		}
		sb.WriteString("))))\n")
	}
	names = names[:0]
	for n := range d.vars {
		names = append(names, n)
	}
	sort.Strings(names)
	for _, n := range names {
		fmt.Fprintf(&sb, "(declare-fun %s () %s)\n", smtSym(n), d.vars[n])
	}
	names = names[:0]
	for n := range d.ufs {
		names = append(names, n)
	}
	sort.Strings(names)
	for _, n := range names {
		fmt.Fprintf(&sb, "(declare-fun %s %s)\n", smtSym(n), d.ufs[n])
	}
	return sb.String()
}

// substitute replaces variables by name.
func substitute(t *Term, m map[string]*Term) *Term {
	if len(m) == 0 {
		return t
	}
	switch t.Op {
	case "var":
		if r, ok := m[t.Name]; ok {
			return r
		}
		return t
	case "int", "bool", "str", "real":
		return t
	}
	changed := false
	args := make([]*Term, len(t.Args))
	for i, a := range t.Args {
		args[i] = substitute(a, m)
		if args[i] != a {
			changed = true
		}
	}
	if !changed {
		return t
	}
	return rebuild(t, args)
}

// rebuild reconstructs t with new args through the simplifying constructors.
func rebuild(t *Term, args []*Term) *Term {
	switch t.Op {
	case "and":
		return And(args...)
	case "or":
		return Or(args...)
	case "not":
		return Not(args[0])
	case "=>":
		return Implies(args[0], args[1])
	case "ite":
		return Ite(args[0], args[1], args[2])
	case "=":
		return Eq(args[0], args[1])
	case "+":
		if len(args) == 2 {
			return Add(args[0], args[1])
		}
	case "-":
		if len(args) == 2 {
			return Sub(args[0], args[1])
		}
	case "<":
		return Lt(args[0], args[1])
	case "<=":
		return Le(args[0], args[1])
	case ">":
		return Gt(args[0], args[1])
	case ">=":
		return Ge(args[0], args[1])
	case "str.len":
		return StrLen(args[0])
	case "str.++":
		return Concat(args...)
	case "select":
		return Select(args[0], args[1])
	case "str.at":
		return StrAt(args[0], args[1])
	case "str.substr":
		return Substr(args[0], args[1], args[2])
	case "str.to_code":
		return StrCode(args[0])
	case "str.prefixof":
		return StrPrefixOf(args[0], args[1])
	case "str.suffixof":
		return StrSuffixOf(args[0], args[1])
	case "str.contains":
		return StrContains(args[0], args[1])
	}
	n := *t
	n.Args = args
	return &n
}
