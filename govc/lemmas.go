package main

// Property-level lemmas: SMT-LIB goals over the contracts' vocabulary,
// kept in /verif/props/lemmas/<name>.smt2 (negated goal; expected unsat).

import (
	"os"
	"path/filepath"
)

func runLemmas(P *Program, prop *PropSpec, timeoutS int, all bool) []*ObligResult {
	var out []*ObligResult
	for _, l := range prop.Lemmas {
		res := &ObligResult{Name: prop.ID + "#lemma:" + l, Kind: "lemma", Paths: 1}
		b, err := os.ReadFile(filepath.Join(verifDir(), "props", "lemmas", l+".smt2"))
		if err != nil {
			res.Result = "undecided"
			res.Note = err.Error()
			out = append(out, res)
			continue
		}
		r := Solve(string(b), timeoutS, all)
		res.Ms = r.Ms
		res.Backend = r.Backend
		res.query = string(b)
		res.raw = r.Raw
		switch r.Status {
		case "unsat":
			res.Result = "discharged"
		case "sat":
			res.Result = "failed"
		default:
			res.Result = "undecided"
		}
		out = append(out, res)
	}
	return out
}
