package main

// Replay drivers for obligations whose observation is not simply "the
// function panics on the model's arguments".

import (
	"fmt"
	"go/types"
	"strconv"
	"strings"
)

func modelLookupPrefix(m map[string]string, prefix string) (string, bool) {
	for k, v := range m {
		if strings.HasPrefix(k, prefix) {
			return v, true
		}
	}
	return "", false
}

func init() {
	// handleBase64: postcondition "on success argc == len(args) and len(args) >= 1".
	specialReplays["server/handlers.(*baseHandler).handleBase64#post:ok-shape"] = func(P *Program, v *ObligResult) (string, string, bool, error) {
		decoded := "tail"
		if d, ok := modelLookupPrefix(v.Model, "(b64decode"); ok {
			decoded = decodeSMTString(d)
		}
		fn := fnOfObligation(P, v.Name)
		g := &goGen{P: P, model: v.Model, pkg: fn.Pkg.Pkg, imports: map[string]bool{"testing": true, "fmt": true, "encoding/base64": true}}
		body := fmt.Sprintf(`h := &baseHandler{}
		payload := base64.StdEncoding.EncodeToString([]byte(%s))
		args, argc, err := h.handleBase64([]string{"base64", payload}, 2)
		if err == nil && !(len(args) >= 1 && argc == len(args)) {
			panic(fmt.Sprintf("postcondition violated: decoded=%%q len(args)=%%d argc=%%d", %s, len(args), argc))
		}`, strconv.Quote(decoded), strconv.Quote(decoded))
		src := g.testFile(fn.Pkg.Pkg, body)
		out, ok, err := runOverlayTest(P, fn.Pkg.Pkg, src)
		return src, out, ok, err
	}
	// isInputFromPipe: the model picks "os.Stdin.Stat() fails"; forced by closing stdin.
	specialReplays["server/handlers.(*readCommand).isInputFromPipe#nil:fileInfo.Mode()"] = func(P *Program, v *ObligResult) (string, string, bool, error) {
		fn := fnOfObligation(P, v.Name)
		g := &goGen{P: P, model: v.Model, pkg: fn.Pkg.Pkg, imports: map[string]bool{"testing": true, "fmt": true, "os": true}}
		body := `sh := &ServerHandler{}
		sh.serverless = true // set by the client-supplied option serverless=true
		r := &readCommand{server: sh}
		os.Stdin.Close() // the library outcome the model chose: Stat returns an error
		r.isInputFromPipe()`
		src := g.testFile(fn.Pkg.Pkg, body)
		out, ok, err := runOverlayTest(P, fn.Pkg.Pkg, src)
		return src, out, ok, err
	}
}

func init() {
	// C13: a read cancelled while queued behind the limiter must not take a
	// token out of it. The model's choice (ctx.Done() wins the select while the
	// limiter is full) is forced by a full limiter and a cancelled context.
	c13 := func(P *Program, v *ObligResult) (string, string, bool, error) {
		fn := fnOfObligation(P, v.Name)
		g := &goGen{P: P, model: v.Model, pkg: fn.Pkg.Pkg, imports: map[string]bool{"testing": true, "fmt": true, "context": true,
			modPath + "/internal/omode": true, modPath + "/internal/regex": true, modPath + "/internal/lcontext": true, modPath + "/internal/io/line": true}}
		body := `limiter := make(chan struct{}, 1)
		limiter <- struct{}{} // the slot of another, still running read
		sh := &ServerHandler{catLimiter: limiter, tailLimiter: make(chan struct{}, 1)}
		sh.lines = make(chan *line.Line, 100)
		sh.serverMessages = make(chan string, 10)
		r := &readCommand{server: sh, mode: omode.CatClient}
		ctx, cancel := context.WithCancel(context.Background())
		cancel() // the session ends while this read is queued
		for i := 0; i < 50 && len(limiter) == 1; i++ {
			r.read(ctx, lcontext.LContext{}, "/nonexistent-govc-replay", "x", regex.NewNoop())
		}
		if len(limiter) != 1 {
			panic(fmt.Sprintf("a cancelled, queued read released a slot it never held: len(limiter)=%d, want 1", len(limiter)))
		}`
		src := g.testFile(fn.Pkg.Pkg, body)
		out, ok, err := runOverlayTest(P, fn.Pkg.Pkg, src)
		return src, out, ok, err
	}
	specialReplays["server/handlers.(*readCommand).read#typestate:release-only-if-held@(*readCommand).read$1/func() { select { case <-limiter: default: } }()"] = c13
}

func init() {
	// C14: a connection that authenticates and ends without ever requesting a
	// shell must give its slot back. Driven against an in-process server.
	c14 := func(P *Program, v *ObligResult) (string, string, bool, error) {
		fn := fnOfObligation(P, v.Name)
		src := `package server

import (
	"context"
	"fmt"
	"net"
	"os"
	"path/filepath"
	"sync"
	"testing"
	"time"

	"github.com/mimecast/dtail/internal/config"
	"github.com/mimecast/dtail/internal/io/dlog"
	"github.com/mimecast/dtail/internal/source"

	gossh "golang.org/x/crypto/ssh"
)

func TestGovcReplay(t *testing.T) {
	os.Setenv("DTAIL_HOSTNAME_OVERRIDE", "replayhost")
	config.Setup(source.Server, &config.Args{ConfigFile: "none", Logger: "none", LogLevel: "error"}, nil)
	config.Server.HostKeyFile = filepath.Join(t.TempDir(), "ssh_host_key")
	config.Server.HostKeyBits = 2048
	config.Server.MaxConnections = 2
	ctx, cancel := context.WithCancel(context.Background())
	defer cancel()
	var wg sync.WaitGroup
	wg.Add(1)
	dlog.Start(ctx, &wg, source.Server)
	s := New()
	listener, err := net.Listen("tcp", "127.0.0.1:0")
	if err != nil {
		t.Skip(err)
	}
	defer listener.Close()
	go s.listenerLoop(ctx, listener)
	cur := func() int { s.stats.mutex.Lock(); defer s.stats.mutex.Unlock(); return s.stats.currentConnections }
	// history: authenticate as the health user, open no channel, disconnect
	c, err := gossh.Dial("tcp", listener.Addr().String(), &gossh.ClientConfig{User: config.HealthUser,
		Auth: []gossh.AuthMethod{gossh.Password(config.HealthUser)}, HostKeyCallback: gossh.InsecureIgnoreHostKey(), Timeout: 5 * time.Second})
	if err != nil {
		t.Skip(err)
	}
	for i := 0; i < 200 && cur() != 1; i++ {
		time.Sleep(5 * time.Millisecond)
	}
	c.Close()
	for i := 0; i < 300 && cur() != 0; i++ {
		time.Sleep(10 * time.Millisecond)
	}
	if n := cur(); n != 0 {
		fmt.Printf("GOVC-REPLAY: the connection ended but the server still reports %d open connections\n", n)
		t.Fatalf("reproduced: slot not returned (currentConnections=%d)", n)
	}
	fmt.Println("GOVC-REPLAY: slot returned")
}
`
		out, ok, err := runOverlayTest(P, fn.Pkg.Pkg, src)
		return src, out, ok, err
	}
	specialReplays["server.(*Server).handleConnection#post:slot-returned"] = c14
}

func init() {
	// C09: the solver's scenario is abstract (uninterpreted parser): the offered
	// key was already collected and the remaining input is non-empty but holds
	// no further key. Concretised with a real key followed by a comment line.
	c09 := func(P *Program, v *ObligResult) (string, string, bool, error) {
		fn := fnOfObligation(P, v.Name)
		g := &goGen{P: P, model: v.Model, pkg: fn.Pkg.Pkg, imports: map[string]bool{"testing": true, "fmt": true,
			"crypto/ed25519": true, "crypto/rand": true, "golang.org/x/crypto/ssh": true, modPath + "/internal/user/server": true}}
		body := `pub, _, err := ed25519.GenerateKey(rand.Reader)
		if err != nil {
			t.Skip(err)
		}
		key, err := ssh.NewPublicKey(pub)
		if err != nil {
			t.Skip(err)
		}
		u, err := user.New("replayuser", "127.0.0.1:1234")
		if err != nil {
			t.Skip(err)
		}
		file := append(ssh.MarshalAuthorizedKey(key), []byte("# rotated 2024-01-01, see ticket 42\n")...)
		perm, verr := verifyAuthorizedKeys(u, file, key)
		if verr != nil || perm == nil {
			panic(fmt.Sprintf("a key listed in a well-formed authorized_keys file (key line followed by a comment line) is rejected: %v", verr))
		}`
		src := g.testFile(fn.Pkg.Pkg, body)
		out, ok, err := runOverlayTest(P, fn.Pkg.Pkg, src)
		return src, out, ok, err
	}
	specialReplays["ssh/server.verifyAuthorizedKeys#post:listed-key-accepted"] = c09
}

func init() {
	// C16 lossless colouring: call the real painter with the model's arguments
	// on a fresh builder and compare the output with escape sequences removed.
	lossless := func(textParam string) func(P *Program, v *ObligResult) (string, string, bool, error) {
		return func(P *Program, v *ObligResult) (string, string, bool, error) {
			fn := fnOfObligation(P, v.Name)
			g := &goGen{P: P, model: v.Model, pkg: fn.Pkg.Pkg, imports: map[string]bool{"testing": true, "fmt": true, "strings": true, "regexp": true}}
			var args []string
			for _, p := range fn.Params {
				if p.Name() == "sb" {
					args = append(args, "sb")
					continue
				}
				args = append(args, g.expr(p.Type(), p.Name(), 0))
			}
			textExpr := g.expr(types.Typ[types.String], textParam, 0)
			body := fmt.Sprintf(`sb := new(strings.Builder)
		%s
		%s(%s)
		plain := regexp.MustCompile("\x1b\\[[0-9;]*m").ReplaceAllString(sb.String(), "")
		if plain != %s {
			panic(fmt.Sprintf("colouring altered the text: coloured output without escapes is %%q, the text is %%q", plain, %s))
		}`, strings.Join(g.pre, "\n\t\t"), fn.Name(), strings.Join(args, ", "), textExpr, textExpr)
			g.pre = nil
			src := g.testFile(fn.Pkg.Pkg, body)
			out, ok, err := runOverlayTest(P, fn.Pkg.Pkg, src)
			return src, out, ok, err
		}
	}
	for _, f := range []string{"Paint", "PaintWithAttr", "PaintWithAttrs"} {
		specialReplays["color."+f+"#post:lossless"] = lossless("text")
	}
	for _, f := range []string{"paintRemote", "paintClient", "paintServer"} {
		specialReplays["color/brush."+f+"#post:lossless"] = lossless("line")
	}
}

func init() {
	// C03: replay one step of the grep context state machine. The model gives
	// the state between two lines (ls.*, f.lineCount, ghost E / lastSel /
	// selCount, ltx, whether the line is selected); the real
	// filterLineWithLContext is called once in exactly that state and what it
	// sends and returns is compared with the E-clauses computed in Go.
	c03 := func(P *Program, v *ObligResult) (string, string, bool, error) {
		fn := fnOfObligation(P, v.Name)
		mi := func(key string, def int64) int64 {
			if s, ok := v.Model[key]; ok {
				var n int64
				if _, err := fmt.Sscanf(smtIntToGo(s), "%d", &n); err == nil {
					return n
				}
			}
			return def
		}
		mb := func(key string) bool { return v.Model[key] == "true" }
		flag0 := mi("(select *re.flags$arr 0)", 3)
		matches := mb("(re_match **re.re.pattern *rawLine.content)")
		sel := flag0 == 3 || (flag0 == 1 && matches) || (flag0 == 2 && !matches)
		g := &goGen{P: P, model: v.Model, pkg: fn.Pkg.Pkg, imports: map[string]bool{"testing": true, "fmt": true, "bytes": true, "context": true,
			modPath + "/internal/io/line": true, modPath + "/internal/lcontext": true, modPath + "/internal/regex": true}}
		body := fmt.Sprintf(`// state taken from the solver's model
		var (
			lineCount           = uint64(%d)
			E, lastSel, selCnt  = int64(%d), int64(%d), int64(%d)
			A, B, M             = int64(%d), int64(%d), int64(%d)
			after, maxCount     = %d, %d
			maxReached, sel     = %v, %v
			bufLen              = %d
		)
		mx := func(a, b int64) int64 { if a > b { return a }; return b }
		Ae, Be, Me := mx(A, 0), mx(B, 0), mx(M, 0)
		f := &readFile{}
		f.lineCount = lineCount
		ltx := lcontext.LContext{AfterContext: int(A), BeforeContext: int(B), MaxCount: int(M)}
		ls := ltxState{maxCount: maxCount, processMaxCount: Me > 0, maxReached: maxReached, before: int(B), processBefore: Be > 0, after: after, processAfter: Ae > 0}
		if ls.processBefore {
			ls.beforeBuf = make(chan *bytes.Buffer, ls.before)
			for i := 0; i < bufLen && i < ls.before; i++ {
				ls.beforeBuf <- bytes.NewBufferString("before")
			}
		}
		re := regex.NewNoop()
		if !sel {
			re, _ = regex.New("this never matches the line", regex.Default)
		}
		lines := make(chan *line.Line, 4096)
		n := int64(lineCount) + 1
		res := f.filterLineWithLContext(context.Background(), &ltx, &ls, nil, lines, &re, bytes.NewBufferString("the line"))
		close(lines)
		var got []int64
		for l := range lines {
			got = append(got, int64(l.Count))
		}
		// expectation from the E-clauses
		var want []int64
		wantAbort := false
		allowed := Me == 0 || selCnt < Me
		switch {
		case sel && allowed:
			for k := mx(E+1, n-Be); k <= n; k++ {
				want = append(want, k)
			}
			wantAbort = Me > 0 && selCnt+1 == Me && Ae == 0
		case sel && !allowed:
			wantAbort = true
		default:
			if selCnt > 0 && n-lastSel <= Ae {
				want = append(want, n)
			}
		}
		if fmt.Sprint(got) != fmt.Sprint(want) || (res == abortReading) != wantAbort {
			panic(fmt.Sprintf("line %%d (selected=%%v) with after=%%d before=%%d max=%%d, %%d selected lines emitted so far (last: %%d), last emitted %%d: sent %%v abort=%%v, grep semantics prescribe %%v abort=%%v",
				n, sel, A, B, M, selCnt, lastSel, E, got, res == abortReading, want, wantAbort))
		}`,
			mi("*f.stats.lineCount", 0), mi("g_E@entry", 0), mi("g_lastSel@entry", 0), mi("g_selCount@entry", 0),
			mi("*ltx.AfterContext", 0), mi("*ltx.BeforeContext", 0), mi("*ltx.MaxCount", 0),
			mi("*ls.after", 0), mi("*ls.maxCount", 0), mb("*ls.maxReached"), sel, mi("*ls.beforeBuf$chan.len", 0))
		src := g.testFile(fn.Pkg.Pkg, body)
		out, ok, err := runOverlayTest(P, fn.Pkg.Pkg, src)
		return src, out, ok, err
	}
	for _, l := range []string{"selected-emitted-with-before-context", "abort-exactly-after-max-without-after", "selected-beyond-max-ends-output", "unselected-only-as-after-context",
		"ctx-after-window", "ctx-before-buffer", "ctx-max-countdown", "ctx-emitted-range", "ctx-no-selection-yet", "line-counted"} {
		specialReplays["io/fs.(*readFile).filterLineWithLContext#post:"+l] = c03
	}
}

func init() {
	// C01/C07 frame-complete: a record larger than the transport buffer must
	// still reach the client completely. Model: len(p) smaller than the record.
	frame := func(P *Program, v *ObligResult) (string, string, bool, error) {
		fn := fnOfObligation(P, v.Name)
		plen := int64(1)
		if s, ok := v.Model["p$len"]; ok {
			fmt.Sscanf(smtIntToGo(s), "%d", &plen)
		}
		if plen < 1 {
			plen = 1
		}
		if plen > 1<<20 {
			plen = 1 << 20
		}
		g := &goGen{P: P, model: v.Model, pkg: fn.Pkg.Pkg, imports: map[string]bool{"testing": true, "fmt": true, "bytes": true,
			modPath + "/internal": true, modPath + "/internal/io/line": true}}
		body := fmt.Sprintf(`h := &baseHandler{done: internal.NewDone(), lines: make(chan *line.Line, 10), serverMessages: make(chan string, 10), maprMessages: make(chan string, 10), plain: true}
		content := bytes.Repeat([]byte("x"), %d+7)
		h.lines <- line.New(bytes.NewBuffer(append([]byte(nil), content...)), 1, 100, "id")
		h.lines <- line.New(bytes.NewBufferString("second line"), 2, 100, "id")
		var got []byte
		p := make([]byte, %d)
		for len(h.lines) > 0 || h.readBuf.Len() > 0 {
			n, err := h.Read(p)
			if err != nil {
				break
			}
			got = append(got, p[:n]...)
		}
		want := append(append(append([]byte(nil), content...), 0xAC), append([]byte("second line"), 0xAC)...)
		if !bytes.Equal(got, want) {
			panic(fmt.Sprintf("a %%d byte line read through a %%d byte transport buffer: client receives %%d bytes, %%d were to be sent (record truncated, delimiter lost, next line merged)", len(content), len(p), len(got), len(want)))
		}`, plen, plen)
		src := g.testFile(fn.Pkg.Pkg, body)
		out, ok, err := runOverlayTest(P, fn.Pkg.Pkg, src)
		return src, out, ok, err
	}
	for _, sfx := range []string{"", "~2", "~3", "~4"} {
		specialReplays["server/handlers.(*baseHandler).Read#assert:frame-complete@copy(p, h.readBuf.Bytes())"+sfx] = frame
	}
	specialReplays["server/handlers.(*baseHandler).Read#post:nothing-lost"] = frame
	specialReplays["server/handlers.(*baseHandler).Read#post:remainder-first"] = frame
}

// c01EndToEnd: one line (and optionally a server message) goes through the
// real server-side Read, the bytes are fed to a real client handler's Write,
// and what the client prints on stdout in plain mode is compared with the
// file content.
func c01EndToEnd(content string, serverMsg string) func(P *Program, v *ObligResult) (string, string, bool, error) {
	return func(P *Program, v *ObligResult) (string, string, bool, error) {
		fn := fnOfObligation(P, v.Name)
		src := fmt.Sprintf(`package handlers

import (
	"bytes"
	"context"
	"fmt"
	"io"
	"os"
	"sync"
	"testing"

	"github.com/mimecast/dtail/internal"
	chandlers "github.com/mimecast/dtail/internal/clients/handlers"
	"github.com/mimecast/dtail/internal/config"
	"github.com/mimecast/dtail/internal/io/dlog"
	"github.com/mimecast/dtail/internal/io/line"
	"github.com/mimecast/dtail/internal/source"
)

func TestGovcReplay(t *testing.T) {
	os.Setenv("DTAIL_HOSTNAME_OVERRIDE", "replayhost")
	config.Setup(source.Client, &config.Args{ConfigFile: "none", Logger: "stdout", LogLevel: "error", NoColor: true, Plain: true}, nil)
	ctx, cancel := context.WithCancel(context.Background())
	defer cancel()
	var wg sync.WaitGroup
	wg.Add(1)
	dlog.Start(ctx, &wg, source.Client)

	content := []byte(%q)
	serverMsg := %q
	h := &baseHandler{done: internal.NewDone(), lines: make(chan *line.Line, 10), serverMessages: make(chan string, 10), maprMessages: make(chan string, 10), plain: true, hostname: "replayhost"}
	if serverMsg != "" {
		h.serverMessages <- serverMsg
	}
	h.lines <- line.New(bytes.NewBuffer(append([]byte(nil), content...)), 1, 100, "id")

	// capture what the client prints
	realStdout := os.Stdout
	r, w, _ := os.Pipe()
	os.Stdout = w
	client := chandlers.NewClientHandler("replayhost")
	p := make([]byte, 32*1024)
	for len(h.lines) > 0 || len(h.serverMessages) > 0 || h.readBuf.Len() > 0 {
		n, err := h.Read(p)
		if err != nil {
			break
		}
		client.Write(p[:n])
	}
	w.Close()
	os.Stdout = realStdout
	printed, _ := io.ReadAll(r)
	if !bytes.Equal(printed, content) {
		fmt.Printf("GOVC-REPLAY: file line %%q, dcat --plain prints %%q\n", content, printed)
		t.Fatalf("reproduced: output differs from the file content")
	}
	fmt.Println("GOVC-REPLAY: output equals content")
}
`, content, serverMsg)
		out, ok, err := runOverlayTest(P, fn.Pkg.Pkg, src)
		return src, out, ok, err
	}
}

func init() {
	specialReplays["server/handlers.(*baseHandler).Read#assert:content-has-no-delimiter@h.readBuf.WriteString(line.Content.String())"] = c01EndToEnd("price 5\xe2\x82\xac today\n", "")
	specialReplays["server/handlers.(*baseHandler).Read#assert:plain-content-not-hidden@h.readBuf.WriteString(line.Content.String())"] = c01EndToEnd(".hidden file line\n", "")
	specialReplays["server/handlers.(*baseHandler).Read#assert:plain-no-extra-bytes@h.readBuf.WriteString(\"SERVER\")"] = c01EndToEnd("a line\n", "WARN|some server side warning\n")
}

func init() {
	// C04: "after a drop the next delivered line reports a percentage below
	// 100". The abstract counterexample is a ring in which no slot remembers
	// the drop; the history that produces it on the real code: one matching
	// line dropped (queue full), 100 non-matching lines, one matching line delivered.
	specialReplays["io/fs.(*readFile).transmittable#post:drop-is-reported"] = func(P *Program, v *ObligResult) (string, string, bool, error) {
		fn := fnOfObligation(P, v.Name)
		g := &goGen{P: P, model: v.Model, pkg: fn.Pkg.Pkg, imports: map[string]bool{"testing": true, "fmt": true, "bytes": true, modPath + "/internal/regex": true}}
		body := `f := &readFile{canSkipLines: true, globID: "id"}
		re, _ := regex.New("MATCH", regex.Default)
		f.updatePosition()
		if _, ok := f.transmittable(bytes.NewBufferString("MATCH dropped"), 1, 1, re); ok {
			t.Skip("not dropped")
		}
		for i := 0; i < 100; i++ {
			f.updatePosition()
			f.transmittable(bytes.NewBufferString("other line"), 0, 1, re)
		}
		f.updatePosition()
		l, ok := f.transmittable(bytes.NewBufferString("MATCH delivered"), 0, 1, re)
		if !ok {
			t.Skip("not delivered")
		}
		if l.TransmittedPerc >= 100 {
			panic(fmt.Sprintf("a matching line was dropped, the next delivered line of the file reports %d%% transmitted", l.TransmittedPerc))
		}`
		src := g.testFile(fn.Pkg.Pkg, body)
		out, ok, err := runOverlayTest(P, fn.Pkg.Pkg, src)
		return src, out, ok, err
	}
}

// C11: a clause that takes one argument silently ignores further ones.
func init() {
	witness := map[string]string{
		"limit-one-argument":     "select count(a) from stats limit 10 20",
		"interval-one-argument":  "select count(a) from stats interval 5 6",
		"logformat-one-argument": "select count(a) from stats logformat generic csv",
		"order-one-argument":     "select count(a),b from stats group by b order by b count(a)",
		"rorder-one-argument":    "select count(a),b from stats group by b rorder by b count(a)",
	}
	for lbl, query := range witness {
		query := query
		specialReplays["mapr.(*Query).parseTokens#inv-pres:loop1/step:"+lbl] = func(P *Program, v *ObligResult) (string, string, bool, error) {
			fn := fnOfObligation(P, v.Name)
			g := &goGen{P: P, model: v.Model, pkg: fn.Pkg.Pkg, imports: map[string]bool{"testing": true, "fmt": true}}
			body := fmt.Sprintf(`q, err := NewQuery(%q)
		if err == nil {
			panic(fmt.Sprintf("malformed query accepted, the extra argument is ignored: %%v", q))
		}`, query)
			src := g.testFile(fn.Pkg.Pkg, body)
			out, ok, err := runOverlayTest(P, fn.Pkg.Pkg, src)
			return src, out, ok, err
		}
	}
}

// C05: the csv parser treats the header line of a second file as a record.
func init() {
	specialReplays["mapr/logformat.(*csvParser).MakeFields#post:header-line-is-no-record"] = func(P *Program, v *ObligResult) (string, string, bool, error) {
		fn := fnOfObligation(P, v.Name)
		g := &goGen{P: P, model: v.Model, pkg: fn.Pkg.Pkg, imports: map[string]bool{"testing": true, "fmt": true}}
		body := `p, err := newCSVParser("host", "UTC", 0)
		if err != nil {
			t.Skip(err)
		}
		// file one
		p.MakeFields("name,value")
		if _, err := p.MakeFields("a,1"); err != nil {
			t.Skip(err)
		}
		// file two of the same session starts with its own header line
		fields, err := p.MakeFields("name,value")
		if err == nil {
			panic(fmt.Sprintf("the header line of the second csv file is aggregated as a record: %v", fields))
		}`
		src := g.testFile(fn.Pkg.Pkg, body)
		out, ok, err := runOverlayTest(P, fn.Pkg.Pkg, src)
		return src, out, ok, err
	}
}

// C06: the aggregator concludes "no more files" while a reader is still
// waiting to register its channel.
func init() {
	specialReplays["mapr/server.(*Aggregate).nextLine#post:done-only-when-every-reader-registered"] = func(P *Program, v *ObligResult) (string, string, bool, error) {
		fn := fnOfObligation(P, v.Name)
		g := &goGen{P: P, model: v.Model, pkg: fn.Pkg.Pkg, imports: map[string]bool{"testing": true, "fmt": true, "bytes": true, "time": true, "context": true,
			modPath + "/internal/io/line": true}}
		body := `a, err := NewAggregate("select count($line) from . group by $hostname logformat generic")
		if err != nil {
			t.Skip(err)
		}
		ctx, cancel := context.WithCancel(context.Background())
		defer cancel()
		fieldsCh := a.fieldsFromLines(ctx)
		// file 1: its reader registers, delivers one line and finishes
		ch1 := make(chan *line.Line, 1)
		a.NextLinesCh <- ch1
		ch1 <- line.New(bytes.NewBufferString("first file"), 1, 100, "f1")
		close(ch1)
		got := 0
		closed := false
		deadline := time.After(5 * time.Second)
		for !closed {
			select {
			case _, ok := <-fieldsCh:
				if !ok {
					closed = true
				} else {
					got++
				}
			case <-deadline:
				t.Skip("aggregator still waiting (no premature conclusion in this run)")
			}
		}
		// file 2: its reader was queued behind the concurrency limiter and
		// registers only now; the aggregator has already concluded
		ch2 := make(chan *line.Line, 1)
		a.NextLinesCh <- ch2
		ch2 <- line.New(bytes.NewBufferString("second file"), 1, 100, "f2")
		close(ch2)
		panic(fmt.Sprintf("the aggregator concluded 'no more files' after %d line(s) while the reader of the second file had not registered yet: that file is never aggregated", got))`
		src := g.testFile(fn.Pkg.Pkg, body)
		out, ok, err := runOverlayTest(P, fn.Pkg.Pkg, src)
		return src, out, ok, err
	}
}

// C05: a last() value containing the aggregate delimiter does not survive the wire.
func init() {
	specialReplays["mapr.(*AggregateSet).Serialize#inv-pres:loop2/step:values-free-of-wire-delimiters"] = func(P *Program, v *ObligResult) (string, string, bool, error) {
		cp := P.SSA[modPath+"/internal/mapr/client"]
		if cp == nil {
			return "", "", false, fmt.Errorf("package mapr/client not loaded")
		}
		g := &goGen{P: P, model: v.Model, pkg: cp.Pkg, imports: map[string]bool{"testing": true, "fmt": true, "context": true, "strings": true, modPath + "/internal/mapr": true}}
		body := `q, err := mapr.NewQuery("select last($msg),count($line) from stats group by $hostname")
		if err != nil {
			t.Skip(err)
		}
		value := "disk sda1 ∥ sdb1 full"
		// server side: one line whose $msg holds the value
		set := mapr.NewAggregateSet()
		set.Aggregate("last($msg)", mapr.Last, value, false)
		set.Aggregate("count($line)", mapr.Count, "x", false)
		set.Samples = 1
		ch := make(chan string, 1)
		set.Serialize(context.Background(), "host1", ch)
		message := <-ch
		// client side
		global := mapr.NewGlobalGroupSet()
		a := NewAggregate("server1", q, global)
		if err := a.Aggregate(message); err != nil {
			panic(fmt.Sprintf("the server's own message is rejected by the client: %v", err))
		}
		a.Flush()
		res, _, _ := global.Result(q, 10)
		if !strings.Contains(res, "sdb1 full") {
			panic(fmt.Sprintf("last($msg) was %q on the server; after the wire the client shows a cut value: %q", value, res))
		}`
		src := g.testFile(cp.Pkg, body)
		out, ok, err := runOverlayTest(P, cp.Pkg, src)
		return src, out, ok, err
	}
}

// C14: the limit is checked at accept time, the slot is taken after the
// handshake. The history behind the abstract counterexample (the counter at
// its limit when incrementConnections runs): MaxConnections = 1, two TCP
// connections accepted while neither handshake has finished, then both log in.
func init() {
	specialReplays["server.(*stats).incrementConnections#pre:(*stats).logServerStats/type-invariant:within-limit@b0"] = func(P *Program, v *ObligResult) (string, string, bool, error) {
		fn := fnOfObligation(P, v.Name)
		g := &goGen{P: P, model: v.Model, pkg: fn.Pkg.Pkg, imports: map[string]bool{"testing": true, "fmt": true, "net": true, "os": true, "time": true, "context": true, "golang.org/x/crypto/ssh": true}}
		body := `os.Setenv("DTAIL_HOSTNAME_OVERRIDE", "h")
		os.Chdir(t.TempDir())
		config.Server.MaxConnections = 1
		ctx, cancel := context.WithCancel(context.Background())
		defer cancel()
		s := New()
		l, err := net.Listen("tcp", "127.0.0.1:0")
		if err != nil {
			t.Skip(err)
		}
		go s.listenerLoop(ctx, l)
		c1, err1 := net.Dial("tcp", l.Addr().String())
		c2, err2 := net.Dial("tcp", l.Addr().String())
		if err1 != nil || err2 != nil {
			t.Skip(err1, err2)
		}
		time.Sleep(300 * time.Millisecond) // both accepted, both passed the limit check
		cfg := &ssh.ClientConfig{User: config.HealthUser, Auth: []ssh.AuthMethod{ssh.Password(config.HealthUser)},
			HostKeyCallback: ssh.InsecureIgnoreHostKey(), Timeout: 5 * time.Second}
		cc1, _, _, _ := ssh.NewClientConn(c1, l.Addr().String(), cfg)
		cc2, _, _, _ := ssh.NewClientConn(c2, l.Addr().String(), cfg)
		time.Sleep(300 * time.Millisecond)
		s.stats.mutex.Lock()
		n := s.stats.currentConnections
		s.stats.mutex.Unlock()
		if cc1 != nil {
			defer cc1.Close()
		}
		if cc2 != nil {
			defer cc2.Close()
		}
		if n > config.Server.MaxConnections {
			panic(fmt.Sprintf("%d connections are served at once with MaxConnections = %d (both handshakes were in flight when the limit was checked)", n, config.Server.MaxConnections))
		}`
		src := g.testFile(fn.Pkg.Pkg, body)
		out, ok, err := runOverlayTest(P, fn.Pkg.Pkg, src)
		return src, out, ok, err
	}
}

// C06: Start returns while the goroutine it started has not shut the handler
// down yet. The schedule behind the failed postcondition: a handler whose
// Shutdown takes a moment (the real mapreduce flush blocks while the global
// group is busy); the session ends; Start returns first.
func init() {
	drv := func(P *Program, v *ObligResult) (string, string, bool, error) {
		fn := fnOfObligation(P, v.Name)
		g := &goGen{P: P, model: v.Model, pkg: fn.Pkg.Pkg, imports: map[string]bool{"testing": true, "fmt": true, "time": true, "context": true, "sync/atomic": true,
			modPath + "/internal/clients/handlers": true, modPath + "/internal/mapr": true}}
		body := `query, err := mapr.NewQuery("select count($line) from STATS group by $hostname")
		if err != nil {
			t.Skip(err)
		}
		h := &govcSlowFlush{MaprHandler: handlers.NewMaprHandler("srv1", query, mapr.NewGlobalGroupSet())}
		conn := NewServerless("DTAIL-HEALTH", h, nil)
		ctx, cancel := context.WithCancel(context.Background())
		go func() {
			time.Sleep(200 * time.Millisecond)
			cancel() // the session ends
		}()
		conn.Start(ctx, cancel, make(chan struct{}, 1), make(chan struct{}, 1))
		if atomic.LoadInt32(&h.flushed) == 0 {
			panic("connector.Start returned before the handler's Shutdown (the flush of the last partial mapreduce result) had finished: the caller reports the final result without it")
		}`
		src := g.testFile(fn.Pkg.Pkg, body) + `
type govcSlowFlush struct {
	*handlers.MaprHandler
	flushed int32
}

func (s *govcSlowFlush) Shutdown() {
	time.Sleep(300 * time.Millisecond)
	s.MaprHandler.Shutdown()
	atomic.StoreInt32(&s.flushed, 1)
}
`
		out, ok, err := runOverlayTest(P, fn.Pkg.Pkg, src)
		return src, out, ok, err
	}
	specialReplays["clients/connectors.(*Serverless).Start#post:handler-shut-down-before-returning"] = drv
	specialReplays["clients/connectors.(*ServerConnection).Start#post:handler-shut-down-before-returning"] = drv
}
