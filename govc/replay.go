package main

type replayResult struct {
	path       string
	reproduced bool
}

// replayViolation writes the replay file of a failed obligation and, where a
// replay driver exists for it, runs the counterexample against the real code.
func replayViolation(P *Program, id string, v *ObligResult) replayResult {
	payload := map[string]interface{}{
		"property":   id,
		"obligation": v.Name,
		"kind":       v.Kind,
		"position":   v.Pos,
		"note":       v.Note,
		"result":     v.Result,
		"backend":    v.Backend,
		"model":      v.Model,
		"solver_output": truncate(v.raw, 4000),
		"smtlib":     truncate(v.query, 20000),
	}
	rr := replayResult{}
	if drv := replayDriverFor(v.Name); drv != nil && v.Result == "failed" {
		out, ok := drv(P, v)
		payload["replay_output"] = out
		payload["reproduced_on_real_code"] = ok
		rr.reproduced = ok
	} else {
		payload["reproduced_on_real_code"] = false
	}
	rr.path = writeReplay(id, v.Name, payload)
	return rr
}

type replayDriver func(P *Program, v *ObligResult) (string, bool)

func replayDriverFor(name string) replayDriver { return nil }
