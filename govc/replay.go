package main

// Counterexample replay: the solver's model is rendered into an in-package
// Go test that calls the REAL function (injected with `go test -overlay`, so
// /repo is never written to) and observes the failed obligation.

import (
	"bytes"
	"context"
	"encoding/json"
	"fmt"
	"go/types"
	"os"
	"os/exec"
	"path/filepath"
	"regexp"
	"strconv"
	"strings"
	"time"

	"golang.org/x/tools/go/ssa"
)

type replayResult struct {
	path       string
	reproduced bool
}

func replayViolation(P *Program, id string, v *ObligResult) replayResult {
	payload := map[string]interface{}{
		"property":      id,
		"obligation":    v.Name,
		"kind":          v.Kind,
		"position":      v.Pos,
		"note":          v.Note,
		"result":        v.Result,
		"backend":       v.Backend,
		"model":         v.Model,
		"solver_output": truncate(v.raw, 4000),
		"smtlib":        truncate(v.query, 30000),
	}
	rr := replayResult{}
	_, hasSpecial := specialReplays[v.Name]
	if (v.Result == "failed" || hasSpecial) && os.Getenv("GOVC_NO_REPLAY") == "" {
		src, out, ok, err := replayOnRealCode(P, v)
		if err != nil {
			payload["replay_error"] = err.Error()
		}
		payload["replay_test"] = src
		payload["replay_output"] = truncate(out, 6000)
		payload["reproduced_on_real_code"] = ok
		rr.reproduced = ok
	} else {
		payload["reproduced_on_real_code"] = false
	}
	rr.path = writeReplay(id, v.Name, payload)
	return rr
}

var reObligName = regexp.MustCompile(`^(.*)#([a-z-]+):(.*)$`)

// fnOfObligation resolves "pkg.Key#kind:label" to the function.
func fnOfObligation(P *Program, name string) *ssa.Function {
	m := reObligName.FindStringSubmatch(name)
	if m == nil {
		return nil
	}
	disp := m[1]
	for _, fn := range P.Funcs {
		if fnDisplay(fn) == disp {
			return fn
		}
	}
	return nil
}

type goGen struct {
	P       *Program
	model   map[string]string
	pkg     *types.Package
	imports map[string]bool
	pre     []string // statements before the call
	n       int
}

func (g *goGen) qual(p *types.Package) string {
	if p == g.pkg {
		return ""
	}
	g.imports[p.Path()] = true
	return p.Name()
}

func (g *goGen) typeStr(t types.Type) string {
	return types.TypeString(t, g.qual)
}

func (g *goGen) mval(name string) (string, bool) {
	v, ok := g.model[name]
	return v, ok
}

func smtIntToGo(v string) string {
	v = strings.TrimSpace(v)
	v = strings.ReplaceAll(v, "(- ", "-")
	v = strings.ReplaceAll(v, ")", "")
	v = strings.ReplaceAll(v, " ", "")
	if _, err := strconv.ParseInt(v, 10, 64); err != nil {
		if strings.HasPrefix(v, "-") {
			return "-9223372036854775807"
		}
		return "9223372036854775807"
	}
	return v
}

// expr renders a Go expression of type t from the model, where name is the
// SMT variable naming convention of values.go (freshVal).
func (g *goGen) expr(t types.Type, name string, depth int) string {
	if depth > 6 {
		return g.zero(t)
	}
	switch u := under(t).(type) {
	case *types.Basic:
		v, ok := g.mval(name)
		switch {
		case u.Info()&types.IsBoolean != 0:
			if ok {
				return g.conv(t, v)
			}
			return g.conv(t, "false")
		case u.Info()&types.IsString != 0:
			if ok {
				return g.conv(t, strconv.Quote(decodeSMTString(v)))
			}
			return g.conv(t, `""`)
		case u.Info()&types.IsInteger != 0:
			if ok {
				return g.conv(t, smtIntToGo(v))
			}
			return g.conv(t, "0")
		case u.Info()&types.IsFloat != 0:
			return g.conv(t, "0")
		}
	case *types.Pointer:
		if v, ok := g.mval(name + "$nil"); ok && v == "true" {
			return "nil"
		}
		if qualifiedTypeName(u.Elem()) == "regexp.Regexp" {
			g.imports["regexp"] = true
			return `regexp.MustCompile("")`
		}
		if qualifiedTypeName(u.Elem()) == "bytes.Buffer" {
			g.imports["bytes"] = true
			c, _ := g.mval("*" + name + ".content")
			return "bytes.NewBufferString(" + strconv.Quote(decodeSMTString(c)) + ")"
		}
		if _, isStruct := under(u.Elem()).(*types.Struct); isStruct {
			if _, abs := abstractTypes[qualifiedTypeName(u.Elem())]; abs {
				return "new(" + g.typeStr(u.Elem()) + ")"
			}
			inner := g.expr(u.Elem(), "*"+name, depth+1)
			return "&" + inner
		}
		g.n++
		tmp := fmt.Sprintf("p%d", g.n)
		g.pre = append(g.pre, fmt.Sprintf("%s := %s", tmp, g.expr(u.Elem(), "*"+name, depth+1)))
		return "&" + tmp
	case *types.Slice:
		if v, ok := g.mval(name + "$nil"); ok && v == "true" {
			return g.typeStr(t) + "(nil)"
		}
		n := 0
		if v, ok := g.mval(name + "$len"); ok {
			n, _ = strconv.Atoi(smtIntToGo(v))
		}
		if n > 64 {
			n = 64
		}
		if isByteType(u.Elem()) {
			c, _ := g.mval(name + "$arr")
			b := decodeSMTString(c)
			for len(b) < n {
				b += "\x00"
			}
			if n < len(b) {
				b = b[:n]
			}
			return g.typeStr(t) + "(" + strconv.Quote(b) + ")"
		}
		var elems []string
		for i := 0; i < n; i++ {
			elems = append(elems, g.elemFromArray(u.Elem(), name+"$arr", i, depth+1))
		}
		return g.typeStr(t) + "{" + strings.Join(elems, ", ") + "}"
	case *types.Struct:
		if _, abs := abstractTypes[qualifiedTypeName(t)]; abs {
			return g.typeStr(t) + "{}"
		}
		var fs []string
		for i := 0; i < u.NumFields(); i++ {
			f := u.Field(i)
			if !f.Exported() && f.Pkg() != g.pkg {
				continue
			}
			fs = append(fs, f.Name()+": "+g.expr(f.Type(), name+"."+f.Name(), depth+1))
		}
		return g.typeStr(t) + "{" + strings.Join(fs, ", ") + "}"
	case *types.Map:
		if v, ok := g.mval(name + "$nil"); ok && v == "true" {
			return g.typeStr(t) + "(nil)"
		}
		return "make(" + g.typeStr(t) + ")"
	case *types.Chan:
		if v, ok := g.mval(name + "$nil"); ok && v == "true" {
			return g.typeStr(t) + "(nil)"
		}
		ct := types.NewChan(types.SendRecv, u.Elem())
		return "(" + g.typeStr(t) + ")(make(" + g.typeStr(ct) + ", 1024))"
	case *types.Interface:
		if isContextType(t) {
			g.imports["context"] = true
			return "context.Background()"
		}
		return "nil"
	case *types.Signature:
		return "nil"
	case *types.Array:
		return g.typeStr(t) + "{}"
	}
	return g.zero(t)
}

func (g *goGen) conv(t types.Type, lit string) string {
	if _, named := t.(*types.Named); named {
		return g.typeStr(t) + "(" + lit + ")"
	}
	if b, ok := t.(*types.Basic); ok && (b.Kind() == types.Int || b.Kind() == types.String || b.Kind() == types.Bool || b.Kind() == types.UntypedInt) {
		return lit
	}
	return g.typeStr(t) + "(" + lit + ")"
}

func (g *goGen) zero(t types.Type) string {
	switch under(t).(type) {
	case *types.Pointer, *types.Slice, *types.Map, *types.Chan, *types.Interface, *types.Signature:
		return "nil"
	case *types.Struct, *types.Array:
		return g.typeStr(t) + "{}"
	}
	return "*new(" + g.typeStr(t) + ")"
}

// elemFromArray reads element i of an SMT array value from the model
// (available as the value of the term `(select name i)`).
func (g *goGen) elemFromArray(et types.Type, arr string, i int, depth int) string {
	key := fmt.Sprintf("(select %s %d)", smtSym(arr), i)
	v, ok := g.model[key]
	if !ok {
		return g.zero(et)
	}
	return g.fromSMTValue(et, v, depth)
}

// fromSMTValue renders a model value (literal or datatype constructor) as Go.
func (g *goGen) fromSMTValue(t types.Type, v string, depth int) string {
	switch u := under(t).(type) {
	case *types.Basic:
		switch {
		case u.Info()&types.IsBoolean != 0:
			return g.conv(t, v)
		case u.Info()&types.IsString != 0:
			return g.conv(t, strconv.Quote(decodeSMTString(v)))
		case u.Info()&types.IsInteger != 0:
			return g.conv(t, smtIntToGo(v))
		}
	case *types.Struct:
		sx := sexpParse(v)
		if len(sx) == 1 && sx[0].list && len(sx[0].kids) == u.NumFields()+1 {
			var fs []string
			for i := 0; i < u.NumFields(); i++ {
				f := u.Field(i)
				if !f.Exported() && f.Pkg() != g.pkg {
					continue
				}
				switch under(f.Type()).(type) {
				case *types.Basic:
					fs = append(fs, f.Name()+": "+g.fromSMTValue(f.Type(), sx[0].kids[i+1].text(), depth+1))
				}
			}
			return g.typeStr(t) + "{" + strings.Join(fs, ", ") + "}"
		}
	}
	return g.zero(t)
}

// importsOf: does package p (transitively) import q?
func importsTransitively(p *types.Package, q string, seen map[string]bool) bool {
	if p.Path() == q {
		return true
	}
	if seen[p.Path()] {
		return false
	}
	seen[p.Path()] = true
	for _, i := range p.Imports() {
		if importsTransitively(i, q, seen) {
			return true
		}
	}
	return false
}

func (P *Program) pkgDir(p *types.Package) string {
	pp := P.PkgOf[p.Path()]
	if pp == nil || len(pp.GoFiles) == 0 {
		return ""
	}
	return filepath.Dir(pp.GoFiles[0])
}

// replayOnRealCode generates and runs the replay test. Supported: safety
// obligations (the real function must panic) of package-level functions and
// methods whose receiver and parameters can be built from the model.
func replayOnRealCode(P *Program, v *ObligResult) (src, out string, reproduced bool, err error) {
	if drv, ok := specialReplays[v.Name]; ok {
		return drv(P, v)
	}
	switch v.Kind {
	case "bounds", "nil", "div", "makechan", "makeslice", "typeassert", "panic":
	default:
		return "", "", false, fmt.Errorf("no generic replay for obligation kind %q", v.Kind)
	}
	fn := fnOfObligation(P, v.Name)
	if fn == nil || fn.Pkg == nil || fn.Parent() != nil {
		return "", "", false, fmt.Errorf("no generic replay for closures / unknown functions")
	}
	g := &goGen{P: P, model: v.Model, pkg: fn.Pkg.Pkg, imports: map[string]bool{"testing": true, "fmt": true}}
	var args []string
	recvExpr := ""
	params := fn.Params
	if fn.Signature.Recv() != nil {
		recvExpr = g.expr(params[0].Type(), params[0].Name(), 0)
		params = params[1:]
	}
	for _, p := range params {
		args = append(args, g.expr(p.Type(), p.Name(), 0))
	}
	call := ""
	if recvExpr != "" {
		call = fmt.Sprintf("(%s).%s(%s)", recvExpr, fn.Name(), strings.Join(args, ", "))
	} else {
		call = fmt.Sprintf("%s(%s)", fn.Name(), strings.Join(args, ", "))
	}
	body := strings.Join(g.pre, "\n\t") + "\n\t" + call
	src = g.testFile(fn.Pkg.Pkg, body)
	out, reproduced, err = runOverlayTest(P, fn.Pkg.Pkg, src)
	return
}

func (g *goGen) testFile(pkg *types.Package, body string) string {
	fixture := ""
	useConfig := !importsTransitively(g.P.SSA[modPath+"/internal/config"].Pkg, pkg.Path(), map[string]bool{})
	useDlog := !importsTransitively(g.P.SSA[modPath+"/internal/io/dlog"].Pkg, pkg.Path(), map[string]bool{})
	if useConfig && pkg.Path() != modPath+"/internal/config" {
		g.imports[modPath+"/internal/config"] = true
		g.imports[modPath+"/internal/source"] = true
		fixture += "\tconfig.Setup(source.Server, &config.Args{ConfigFile: \"none\", Logger: \"none\", LogLevel: \"error\"}, nil)\n"
	}
	if useDlog && useConfig {
		g.imports[modPath+"/internal/io/dlog"] = true
		g.imports["context"] = true
		g.imports["sync"] = true
		fixture += "\tvar wg sync.WaitGroup\n\twg.Add(1)\n\tfixCtx, fixCancel := context.WithCancel(context.Background())\n\tdefer fixCancel()\n\tdlog.Start(fixCtx, &wg, source.Server)\n"
	}
	var imps []string
	for p := range g.imports {
		name := ""
		if p == modPath+"/internal/user/server" {
			name = "user "
		}
		imps = append(imps, "\t"+name+strconv.Quote(p))
	}
	sortStrings(imps)
	return fmt.Sprintf(`package %s

import (
%s
)

func TestGovcReplay(t *testing.T) {
%s	panicked := true
	var pv interface{}
	func() {
		defer func() { pv = recover() }()
		%s
		panicked = false
	}()
	if panicked {
		fmt.Printf("GOVC-REPLAY: panic: %%v\n", pv)
		t.Fatalf("reproduced: the real function panics: %%v", pv)
	}
	fmt.Println("GOVC-REPLAY: no panic")
}
`, pkg.Name(), strings.Join(imps, "\n"), fixture, body)
}

func sortStrings(s []string) {
	for i := 1; i < len(s); i++ {
		for j := i; j > 0 && s[j] < s[j-1]; j-- {
			s[j], s[j-1] = s[j-1], s[j]
		}
	}
}

// runOverlayTest injects src as an extra _test.go file of pkg and runs it.
// reproduced = the test failed with the GOVC-REPLAY marker.
func runOverlayTest(P *Program, pkg *types.Package, src string) (string, bool, error) {
	dir := P.pkgDir(pkg)
	if dir == "" {
		return "", false, fmt.Errorf("no directory for %s", pkg.Path())
	}
	tmp, err := os.MkdirTemp("", "govc-replay-")
	if err != nil {
		return "", false, err
	}
	defer os.RemoveAll(tmp)
	tf := filepath.Join(tmp, "replay_test.go")
	if err := os.WriteFile(tf, []byte(src), 0o644); err != nil {
		return "", false, err
	}
	ov := map[string]map[string]string{"Replace": {filepath.Join(dir, "zz_govc_replay_test.go"): tf}}
	ob, _ := json.Marshal(ov)
	of := filepath.Join(tmp, "overlay.json")
	os.WriteFile(of, ob, 0o644)
	ctx, cancel := context.WithTimeout(context.Background(), 120*time.Second)
	defer cancel()
	cmd := exec.CommandContext(ctx, "go", "test", "-overlay", of, "-vet=off", "-count=1", "-timeout", "60s", "-run", "^TestGovcReplay$", ".")
	cmd.Dir = dir
	cmd.Env = append(os.Environ(), "GOFLAGS=-mod=mod", "GOPROXY=off", "GOSUMDB=off", "GOTOOLCHAIN=local", "DTAIL_HOSTNAME_OVERRIDE=replayhost")
	var out bytes.Buffer
	cmd.Stdout = &out
	cmd.Stderr = &out
	runErr := cmd.Run()
	o := out.String()
	reproduced := runErr != nil && strings.Contains(o, "GOVC-REPLAY:") && strings.Contains(o, "reproduced")
	return o, reproduced, nil
}

// specialReplays: drivers for obligations whose observation is not "panics".
var specialReplays = map[string]func(P *Program, v *ObligResult) (string, string, bool, error){}
