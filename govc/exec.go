package main

// Symbolic execution of go/ssa functions with cut points at loop headers,
// contracts at calls, and obligation generation.

import (
	"bytes"
	"fmt"
	"go/ast"
	"go/constant"
	"go/parser"
	"go/printer"
	"go/token"
	"go/types"
	"math/big"
	"os"
	"runtime/debug"
	"sort"
	"strings"

	"golang.org/x/tools/go/ast/astutil"
	"golang.org/x/tools/go/ssa"
)

type Oblig struct {
	Name  string
	Kind  string
	Hyps  []*Term
	Goal  *Term
	Pos   string
	Trace []int
	Note  string
	Want  []*Term // variables whose values are wanted in a counterexample
}

type loopInfo struct {
	invObjs []writeRec
	header  *ssa.BasicBlock
	body    map[*ssa.BasicBlock]bool
	ordinal int
	spec    *LoopSpec
}

type Exec struct {
	P              *Program
	E              *Engine
	fn             *ssa.Function
	c              *Contract
	obligs         []*Oblig
	labels         map[ssa.Instruction]string
	labelled       map[*ssa.Function]bool
	loops          map[*ssa.Function]map[*ssa.BasicBlock]*loopInfo
	nPaths         int
	maxPaths       int
	dry            []*dryRun
	errs           []string
	params         map[string]Val
	paramFacts     []*Term
	inputs         []*Term // symbolic input variables (for models)
	retCount       int
	inlineDepthMax int
	callsSeen      map[string]bool // callee display names used through contracts
	pristine       *State
	entryLets      map[string]Val
	argLets        bool // arg0, arg1, … name the receiver / parameters (clauses taken from an interface contract)
	inEntry        bool
	assignRhs      map[*ssa.Function]map[token.Pos]string
	inHook         bool
	clauseHit      map[interface{}]bool
	extraLets      map[string]Val
	recvOk         *Term
	allocs         []*Object
	trustedUsed    map[string]bool
}

type dryRun struct {
	loop       *loopInfo
	fn         *ssa.Function
	writes     map[string]writeRec
	frameDepth int
}

func newExec(P *Program, fn *ssa.Function) *Exec {
	return &Exec{P: P, E: newEngine(), fn: fn, c: P.contractFor(fn), labels: map[ssa.Instruction]string{}, labelled: map[*ssa.Function]bool{},
		loops: map[*ssa.Function]map[*ssa.BasicBlock]*loopInfo{}, maxPaths: 6000, params: map[string]Val{}, inlineDepthMax: 6,
		callsSeen: map[string]bool{}, trustedUsed: map[string]bool{}, clauseHit: map[interface{}]bool{}}
}

// installTypeInvariantHook makes every materialised struct of a type with
// declared invariants satisfy them (visible-state semantics).
func (x *Exec) installTypeInvariantHook() {
	x.E.onFreshStruct = func(t types.Type, v *StructV, facts *[]*Term) {
		for _, ci := range x.P.chanInvsOfType(t) {
			if idx, _, ok := fieldIndexDeep(t, ci.ChanSrc); ok && len(idx) == 1 {
				if cv, ok := v.F[idx[0]].(*ChanV); ok && cv.Obj != nil {
					x.attachEngineChanInv(cv.Obj, ci)
				}
			}
		}
		for _, f := range x.P.semaphoresOfType(t) {
			if idx, _, ok := fieldIndexDeep(t, f); ok && len(idx) == 1 {
				if cv, ok := v.F[idx[0]].(*ChanV); ok && cv.Obj != nil {
					x.E.semaphores[cv.Obj.id] = true
				}
			}
		}
		invs := x.P.invariantsOfType(t)
		if len(invs) == 0 || x.inHook {
			return
		}
		x.inHook = true
		defer func() { x.inHook = false }()
		tmp := newState()
		tmp.frames = []*Frame{{fn: x.fn, regs: map[ssa.Value]Val{}, names: map[string]Val{}}}
		env := &SpecEnv{x: x, s: tmp, vars: map[string]Val{"self": v}, lets: map[string]Val{}, bound: map[string]*Term{}}
		env.pkgPath = t.(*types.Named).Obj().Pkg().Path()
		for _, inv := range invs {
			*facts = append(*facts, env.evalBool(inv.Expr))
		}
		*facts = append(*facts, tmp.pc...)
		x.E.assumeNote("type invariant of " + typeName(t) + " assumed for objects received from outside (visible-state semantics; re-entrancy and concurrent mutation not modelled)")
	}
}

func (x *Exec) errorf(format string, args ...interface{}) {
	msg := fmt.Sprintf(format, args...)
	for _, e := range x.errs {
		if e == msg {
			return
		}
	}
	x.errs = append(x.errs, msg)
}

// ---------------------------------------------------------------- labels

func (x *Exec) snippet(pos token.Pos) string {
	f := x.P.fileOf(pos)
	if f == nil {
		return ""
	}
	path, _ := astutil.PathEnclosingInterval(f, pos, pos)
	for _, n := range path {
		switch n.(type) {
		case *ast.IndexExpr, *ast.SliceExpr, *ast.StarExpr, *ast.SelectorExpr, *ast.CallExpr, *ast.TypeAssertExpr, *ast.BinaryExpr, *ast.UnaryExpr, *ast.SendStmt, *ast.AssignStmt, *ast.RangeStmt, *ast.IncDecStmt:
			var buf bytes.Buffer
			switch r := n.(type) {
			case *ast.RangeStmt:
				buf.WriteString("range ")
				printer.Fprint(&buf, x.P.Fset, r.X)
			default:
				printer.Fprint(&buf, x.P.Fset, n)
			}
			s := strings.Join(strings.Fields(buf.String()), " ")
			if len(s) > 48 {
				s = s[:48]
			}
			return s
		}
	}
	return ""
}

func obligKindOf(instr ssa.Instruction) []string {
	switch i := instr.(type) {
	case *ssa.Index, *ssa.IndexAddr:
		return []string{"bounds", "nil"}
	case *ssa.Slice:
		return []string{"bounds", "nil"}
	case *ssa.Lookup:
		return []string{"bounds"}
	case *ssa.UnOp:
		if i.Op == token.MUL {
			return []string{"nil"}
		}
	case *ssa.FieldAddr, *ssa.Store, *ssa.MapUpdate:
		return []string{"nil"}
	case *ssa.BinOp:
		if i.Op == token.QUO || i.Op == token.REM {
			return []string{"div"}
		}
	case *ssa.MakeChan:
		return []string{"makechan"}
	case *ssa.MakeSlice:
		return []string{"makeslice"}
	case *ssa.TypeAssert:
		return []string{"typeassert"}
	case *ssa.Panic:
		return []string{"panic"}
	case *ssa.Send, *ssa.Select:
		return []string{"chaninv"}
	case *ssa.Call:
		return []string{"call"}
	case *ssa.Defer:
		return []string{"call"}
	case *ssa.Go:
		return []string{"call"}
	}
	return nil
}

func (x *Exec) labelFunc(fn *ssa.Function) {
	if x.labelled[fn] {
		return
	}
	x.labelled[fn] = true
	seen := map[string]int{}
	for _, b := range fn.Blocks {
		for _, instr := range b.Instrs {
			if obligKindOf(instr) == nil {
				continue
			}
			sn := x.snippet(instr.Pos())
			if sn == "" {
				if v, ok := instr.(ssa.Value); ok {
					sn = v.Name()
				} else {
					sn = fmt.Sprintf("b%d", b.Index)
				}
			}
			seen[sn]++
			if seen[sn] > 1 {
				sn = fmt.Sprintf("%s~%d", sn, seen[sn])
			}
			x.labels[instr] = sn
		}
	}
}

func (x *Exec) label(s *State, instr ssa.Instruction) string {
	fn := instr.Parent()
	x.labelFunc(fn)
	return s.top().prefix + x.labels[instr]
}

func (x *Exec) posOf(instr ssa.Instruction) string {
	if instr == nil || !instr.Pos().IsValid() {
		return ""
	}
	p := x.P.Fset.Position(instr.Pos())
	return fmt.Sprintf("%s:%d", strings.TrimPrefix(p.Filename, x.P.Repo+"/"), p.Line)
}

// ---------------------------------------------------------------- obligations

func (x *Exec) oblige(s *State, kind, label string, goal *Term, instr ssa.Instruction, note string) {
	if len(x.dry) > 0 || s.dead {
		return
	}
	if goal.IsTrue() {
		// trivially true safety checks (constant indices into fresh arrays,
		// non-nil allocations ...) are noise; contract-level obligations that
		// simplify to true are kept and counted as discharged by the simplifier
		switch kind {
		case "post", "assert", "typestate", "inv-init", "inv-pres", "chaninv", "type-invariant", "pre":
		default:
			return
		}
	}
	name := fmt.Sprintf("%s#%s:%s", fnDisplay(x.fn), kind, label)
	o := &Oblig{Name: name, Kind: kind, Hyps: append([]*Term(nil), s.pc...), Goal: goal, Pos: x.posOf(instr), Trace: append([]int(nil), s.trace...), Note: note, Want: x.inputs}
	x.obligs = append(x.obligs, o)
}

// check records a safety obligation and then assumes the goal on the
// continuing path (execution past a panic site is only meaningful when the
// check passed).
func (x *Exec) check(s *State, kind string, instr ssa.Instruction, goal *Term, note string) {
	x.oblige(s, kind, x.label(s, instr), goal, instr, note)
	s.assume(goal)
}

// ---------------------------------------------------------------- loops

func (x *Exec) loopsOf(fn *ssa.Function) map[*ssa.BasicBlock]*loopInfo {
	if m, ok := x.loops[fn]; ok {
		return m
	}
	m := map[*ssa.BasicBlock]*loopInfo{}
	for _, b := range fn.Blocks {
		for _, succ := range b.Succs {
			if succ.Dominates(b) { // back edge b -> succ
				li := m[succ]
				if li == nil {
					li = &loopInfo{header: succ, body: map[*ssa.BasicBlock]bool{succ: true}}
					m[succ] = li
				}
				// natural loop: all blocks that reach b without passing header
				var stack []*ssa.BasicBlock
				if !li.body[b] {
					li.body[b] = true
					stack = append(stack, b)
				}
				for len(stack) > 0 {
					n := stack[len(stack)-1]
					stack = stack[:len(stack)-1]
					for _, p := range n.Preds {
						if !li.body[p] {
							li.body[p] = true
							stack = append(stack, p)
						}
					}
				}
			}
		}
	}
	var hs []*ssa.BasicBlock
	for h := range m {
		hs = append(hs, h)
	}
	sort.Slice(hs, func(i, j int) bool { return hs[i].Index < hs[j].Index })
	c := x.P.contractFor(fn)
	for i, h := range hs {
		m[h].ordinal = i + 1
		if c != nil {
			m[h].spec = c.Loops[i+1]
		}
	}
	if c != nil && fn == x.fn {
		// vacuity: a loop clause for a loop the function does not have checks nothing
		for k := range c.Loops {
			if k < 1 || k > len(hs) {
				x.errorf("loop %d clauses of %s refer to a loop that does not exist (the function has %d)", k, fnDisplay(fn), len(hs))
			}
		}
	}
	x.loops[fn] = m
	return m
}

// ---------------------------------------------------------------- registers

func (x *Exec) constVal(c *ssa.Const) Val {
	t := c.Type()
	if c.Value == nil {
		return x.E.zeroVal(t, "nil")
	}
	switch u := under(t).(type) {
	case *types.Basic:
		switch {
		case u.Info()&types.IsBoolean != 0:
			return Bool(constant.BoolVal(c.Value))
		case u.Info()&types.IsString != 0:
			return Str(constant.StringVal(c.Value))
		case u.Info()&types.IsInteger != 0:
			if i, ok := constant.Int64Val(constant.ToInt(c.Value)); ok {
				return Int(i)
			}
			bi, _ := new(big.Int).SetString(constant.ToInt(c.Value).ExactString(), 10)
			return IntB(bi)
		case u.Info()&types.IsFloat != 0:
			f, _ := constant.Float64Val(c.Value)
			return RealLit(formatReal(f))
		}
	}
	return x.E.zeroVal(t, "const")
}

func formatReal(f float64) string {
	s := fmt.Sprintf("%f", f)
	if !strings.Contains(s, ".") {
		s += ".0"
	}
	return s
}

func (x *Exec) val(s *State, v ssa.Value) Val {
	switch v := v.(type) {
	case *ssa.Const:
		return x.constVal(v)
	case *ssa.Global:
		o := x.E.namedObject(globalName(v), v.Type().(*types.Pointer).Elem(), true)
		o.global = true
		return &PtrV{Nil: TFalse, Obj: o, Elem: o.typ}
	case *ssa.Function:
		return &FuncV{Nil: TFalse, Fn: v, Sig: v.Signature}
	case *ssa.Builtin:
		return &FuncV{Nil: TFalse, Fn: v}
	}
	f := s.top()
	if r, ok := f.regs[v]; ok {
		return r
	}
	// free variables of closures are bound at frame creation; anything else is a bug
	x.errorf("%s: unbound SSA value %s (%T) in %s", fnDisplay(x.fn), v.Name(), v, v.Parent())
	var facts []*Term
	r := x.E.freshVal(v.Type(), "unbound."+v.Name(), &facts)
	f.regs[v] = r
	return r
}

func globalName(g *ssa.Global) string {
	if g.Pkg != nil {
		return shortPkg(g.Pkg.Pkg.Path()) + "." + g.Name()
	}
	return g.Name()
}

func (x *Exec) setReg(s *State, v ssa.Value, r Val) {
	s.top().regs[v] = r
}

func (x *Exec) term(s *State, v ssa.Value) *Term {
	r := x.val(s, v)
	if t, ok := r.(*Term); ok {
		return t
	}
	if o, ok := r.(*OpaqueV); ok {
		return o.T
	}
	x.errorf("expected scalar for %s, got %T", v, r)
	return Var("bad."+v.Name(), SInt)
}

// ---------------------------------------------------------------- memory

func (x *Exec) getPath(s *State, v Val, path []PathElem, name string) Val {
	if len(path) == 0 {
		return v
	}
	pe := path[0]
	if pe.Index == nil {
		switch sv := v.(type) {
		case *StructV:
			return x.getPath(s, sv.F[pe.Field], path[1:], name)
		case *AbsV:
			x.errorf("field access into abstract type %s", typeName(sv.Typ))
			return &OpaqueV{T: Int(0), Typ: sv.Typ}
		}
		x.errorf("getPath: field of %T (%s)", v, name)
		return &OpaqueV{T: Int(0)}
	}
	av, ok := v.(*ArrV)
	if !ok {
		x.errorf("getPath: index of %T (%s)", v, name)
		return &OpaqueV{T: Int(0)}
	}
	var ev Val
	if av.IsStr {
		ev = StrCode(StrAt(av.T, pe.Index))
		s.assume(And(Ge(ev.(*Term), Int(0)), Le(ev.(*Term), Int(255))))
	} else {
		ev = x.E.fromTerm(s, Select(av.T, pe.Index), av.Elem, fmt.Sprintf("%s[%s]", name, pe.Index))
	}
	return x.getPath(s, ev, path[1:], name)
}

func (x *Exec) setPath(s *State, v Val, path []PathElem, nv Val, name string) Val {
	if len(path) == 0 {
		return nv
	}
	pe := path[0]
	if pe.Index == nil {
		sv, ok := v.(*StructV)
		if !ok {
			x.errorf("setPath: field of %T (%s)", v, name)
			return v
		}
		n := &StructV{Typ: sv.Typ, F: append([]Val(nil), sv.F...)}
		n.F[pe.Field] = x.setPath(s, sv.F[pe.Field], path[1:], nv, name)
		return n
	}
	av, ok := v.(*ArrV)
	if !ok {
		x.errorf("setPath: index of %T (%s)", v, name)
		return v
	}
	var elemNew Val
	if len(path) > 1 {
		var cur Val
		if av.IsStr {
			cur = StrCode(StrAt(av.T, pe.Index))
		} else {
			cur = x.E.fromTerm(s, Select(av.T, pe.Index), av.Elem, name+"[]")
		}
		elemNew = x.setPath(s, cur, path[1:], nv, name)
	} else {
		elemNew = nv
	}
	n := *av
	if av.IsStr {
		b := elemNew.(*Term)
		total := StrLen(av.T)
		n.T = Concat(Substr(av.T, Int(0), pe.Index), StrFromCode(b), Substr(av.T, Add(pe.Index, Int(1)), Sub(Sub(total, pe.Index), Int(1))))
	} else {
		n.T = Store(av.T, pe.Index, x.E.toTerm(s, elemNew, av.Elem))
	}
	return &n
}

func (x *Exec) load(s *State, p *PtrV) Val {
	if p.Obj == nil {
		s.dead = true
		return x.E.zeroVal(p.Elem, "nilload")
	}
	return x.getPath(s, x.E.objVal(s, p.Obj), p.Path, p.Obj.name)
}

func (x *Exec) recordWrite(s *State, o *Object, path []PathElem) {
	rec := writeRec{obj: o}
	for _, pe := range path {
		if pe.Index != nil {
			break
		}
		rec.fpath = append(rec.fpath, pe.Field)
	}
	s.writes[rec.key()] = rec
}

func (x *Exec) store(s *State, p *PtrV, v Val) {
	if p.Obj == nil {
		s.dead = true
		return
	}
	cur := x.E.objVal(s, p.Obj)
	s.heap[p.Obj.id] = x.setPath(s, cur, p.Path, v, p.Obj.name)
	x.recordWrite(s, p.Obj, p.Path)
	var fp []int
	for _, pe := range p.Path {
		if pe.Index != nil {
			fp = nil
			break
		}
		fp = append(fp, pe.Field)
	}
	if fp != nil || len(p.Path) == 0 {
		x.E.noteOwners(p.Obj, fp, v, 0)
	}
}

// ownerOf maps a write to map / channel / slice storage to the struct
// location holding the reference (if known).
func (x *Exec) ownerOf(rec writeRec) (writeRec, bool) {
	if rec.obj.kind == "" {
		return rec, true
	}
	o, ok := x.E.owner[rec.obj.id]
	return o, ok
}

// havoc replaces the content of a location by a fresh value.
func (x *Exec) havoc(s *State, rec writeRec, tag string) {
	o := rec.obj
	cur := x.E.objVal(s, o)
	var facts []*Term
	name := o.name
	var rebuild func(v Val, fpath []int, t types.Type) Val
	rebuild = func(v Val, fpath []int, t types.Type) Val {
		if len(fpath) == 0 {
			if t == o.typ && len(rec.fpath) == 0 {
				tmp := &Object{id: o.id, name: o.name + "@" + tag, typ: o.typ, lazy: true, kind: o.kind}
				return x.E.freshStore(tmp, &facts)
			}
			return x.E.freshVal(t, name+"@"+tag, &facts)
		}
		sv, ok := v.(*StructV)
		if !ok {
			return x.E.freshVal(t, name+"@"+tag, &facts)
		}
		st := under(sv.Typ).(*types.Struct)
		n := &StructV{Typ: sv.Typ, F: append([]Val(nil), sv.F...)}
		name += "." + st.Field(fpath[0]).Name()
		n.F[fpath[0]] = rebuild(sv.F[fpath[0]], fpath[1:], st.Field(fpath[0]).Type())
		return n
	}
	nv := rebuild(cur, rec.fpath, o.typ)
	if ocs, ok := cur.(*ChanStore); ok {
		if ncs, ok := nv.(*ChanStore); ok {
			ncs.Invs = ocs.Invs // an adopted invariant stays: every send is checked against it
			if ncs.Len == nil {
				ncs.Len = Int(0)
			}
			ncs.Cap = ocs.Cap // the capacity of a channel never changes
		}
	}
	s.heap[o.id] = nv
	for _, f := range facts {
		s.assume(f)
	}
	s.writes[rec.key()] = rec
}

// havocReachable havocs everything reachable from v through pointers (one
// level deep into fresh lazy objects beyond that).
func (x *Exec) havocReachable(s *State, v Val, tag string, seen map[int]bool, depth int) {
	if depth > 4 {
		return
	}
	switch p := v.(type) {
	case *PtrV:
		if p.Obj == nil {
			return
		}
		rec := writeRec{obj: p.Obj}
		for _, pe := range p.Path {
			if pe.Index != nil {
				break
			}
			rec.fpath = append(rec.fpath, pe.Field)
		}
		if seen[p.Obj.id] && len(rec.fpath) == 0 {
			return
		}
		if len(rec.fpath) == 0 {
			seen[p.Obj.id] = true
		}
		old := x.load(s, p)
		x.havoc(s, rec, tag)
		x.havocReachable(s, old, tag, seen, depth+1)
	case *SliceV:
		if p.Obj == nil || seen[p.Obj.id] {
			return
		}
		seen[p.Obj.id] = true
		x.havoc(s, writeRec{obj: p.Obj}, tag)
	case *MapV:
		if p.Obj == nil || seen[p.Obj.id] {
			return
		}
		seen[p.Obj.id] = true
		x.havoc(s, writeRec{obj: p.Obj}, tag)
	case *StructV:
		for _, f := range p.F {
			x.havocReachable(s, f, tag, seen, depth+1)
		}
	case *IfaceV:
		if p.V != nil {
			x.havocReachable(s, p.V, tag, seen, depth+1)
		}
	case *FuncV:
		for _, b := range p.Bind {
			x.havocReachable(s, b, tag, seen, depth+1)
		}
	}
}

// ---------------------------------------------------------------- running

// startFunction builds the entry state of the function under verification.
func (x *Exec) entryState() *State {
	s := newState()
	fr := &Frame{fn: x.fn, regs: map[ssa.Value]Val{}, names: map[string]Val{}}
	s.frames = []*Frame{fr}
	var facts []*Term
	for _, p := range x.fn.Params {
		v := x.E.freshVal(p.Type(), p.Name(), &facts)
		fr.regs[p] = v
		fr.names[p.Name()] = v
		x.params[p.Name()] = v
	}
	for _, fv := range x.fn.FreeVars {
		v := x.E.freshVal(fv.Type(), "free."+fv.Name(), &facts)
		fr.regs[fv] = v
		if pv, ok := v.(*PtrV); ok {
			facts = append(facts, Not(pv.Nil)) // the captured variable's cell exists
		}
		// a free variable is a pointer to the captured variable
		fr.names["&"+fv.Name()] = v
		x.params["&"+fv.Name()] = v
	}
	for _, f := range facts {
		s.assume(f)
	}
	for _, p := range x.fn.Params {
		if isContextType(p.Type()) {
			if iv, ok := fr.regs[p].(*IfaceV); ok {
				s.assume(Not(iv.Nil)) // implicit precondition, checked at call sites
			}
		}
	}
	// implicit precondition of every pointer-receiver method: the receiver is
	// not nil (checked at every call site of a repository method)
	if recv := x.fn.Signature.Recv(); recv != nil && len(x.fn.Params) > 0 {
		if pv, ok := fr.regs[x.fn.Params[0]].(*PtrV); ok {
			s.assume(Not(pv.Nil))
		}
	}
	x.paramFacts = facts
	// pointer receivers are non-nil by Go's method-call convention only if
	// the caller guarantees it; that is left to explicit requires clauses.
	return s
}

// Run verifies the function: returns obligations.
func (x *Exec) Run() {
	if x.fn.Blocks == nil {
		x.errorf("%s has no body", fnDisplay(x.fn))
		return
	}
	x.installTypeInvariantHook()
	s := x.entryState()
	if x.argLets {
		if x.entryLets == nil {
			x.entryLets = map[string]Val{}
		}
		for i, p := range x.fn.Params {
			x.entryLets[fmt.Sprintf("arg%d", i)] = x.params[p.Name()]
		}
	}
	if x.isPkgInit() && x.fn.Pkg != nil {
		// the initialiser runs once: its guard is still false
		if g, ok := x.fn.Pkg.Members["init$guard"].(*ssa.Global); ok {
			if pv, ok := x.val(s, g).(*PtrV); ok && pv.Obj != nil {
				s.heap[pv.Obj.id] = TFalse
			}
		}
	}
	x.initBinds(s)
	env := x.specEnv(s, nil)
	// global invariants of every package with a spec are assumed
	x.assumeGlobalInvariants(s)
	if x.c != nil {
		x.inEntry = true
		for _, l := range x.c.Lets {
			x.evalLet(env, l)
		}
		x.inEntry = false
		for _, r := range x.c.Requires {
			t := env.evalAssumed(r.Expr)
			s.assume(t)
		}
	}
	if len(x.fn.Params) > 0 {
		for _, ti := range x.P.typeInvariants(x.fn) {
			env.vars["self"] = x.params[x.fn.Params[0].Name()]
			s.assume(env.evalAssumed(ti.Expr))
			delete(env.vars, "self")
		}
	}
	x.entryChanInvs(s)
	if x.c != nil {
		for _, gi := range x.c.GhostInits {
			be, ok := gi.Expr.(*ast.BinaryExpr)
			id, ok2 := (ast.Expr)(nil), false
			if ok {
				id, ok2 = be.X, true
			}
			if !ok || !ok2 || be.Op != token.EQL {
				x.errorf("%s:%d: ghost-init needs `g_name == expr`", gi.File, gi.Line)
				continue
			}
			if idn, isID := id.(*ast.Ident); isID && strings.HasPrefix(idn.Name, "g_") {
				s.ghost[idn.Name] = env.eval(be.Y)
			}
		}
	}
	if x.c != nil {
		senv := x.specEnv(s, nil)
		for _, src := range x.c.Semaphores {
			e, err := parser.ParseExpr(src)
			if err != nil {
				x.errorf("bad semaphore expression %q", src)
				continue
			}
			if cv, ok := senv.eval(e).(*ChanV); ok && cv.Obj != nil {
				x.E.semaphores[cv.Obj.id] = true
			}
		}
		senv.syncFacts()
	}
	s.top().k = func(s *State, ret Val) { x.atReturn(s, ret) }
	x.collectInputs(s)
	x.runBlock(s, x.fn.Blocks[0], nil)
	// vacuity: a send / call clause that never applied checks nothing
	if x.c != nil && len(x.errs) == 0 {
		for _, oc := range x.c.OnSends {
			if !x.clauseHit[oc] {
				kind := "at-send"
				if oc.Effect != nil {
					kind = "on-send/on-recv"
				}
				x.errorf("%s clause for %s never applied on any path of %s (no matching channel operation)", kind, oc.ChanSrc, fnDisplay(x.fn))
			}
		}
		for _, b := range x.c.Binds {
			if !x.clauseHit[b] {
				x.errorf("bind clause %s == %s never applied on any path of %s (no matching call)", b.Name, b.Callee, fnDisplay(x.fn))
			}
		}
		for _, ac := range x.c.AtCalls {
			if !x.clauseHit[ac] {
				lbl := "effect"
				if ac.Pred != nil {
					lbl = ac.Pred.Label
				}
				x.errorf("at-call clause %s [%s] never applied on any path of %s (no matching call)", ac.Callee, lbl, fnDisplay(x.fn))
			}
		}
	}
}

func (x *Exec) collectInputs(s *State) {
	ds := newDeclSet()
	for _, t := range s.pc {
		ds.walk(t, nil)
	}
	for _, p := range x.fn.Params {
		collectVars(x.params[p.Name()], ds)
	}
	var names []string
	for n := range ds.vars {
		names = append(names, n)
	}
	sort.Strings(names)
	for _, n := range names {
		x.inputs = append(x.inputs, Var(n, ds.vars[n]))
	}
}

func collectVars(v Val, ds *declSet) {
	switch t := v.(type) {
	case *Term:
		ds.walk(t, nil)
	case *StructV:
		for _, f := range t.F {
			collectVars(f, ds)
		}
	case *SliceV:
		ds.walk(t.Len, nil)
		ds.walk(t.Nil, nil)
	case *PtrV:
		ds.walk(t.Nil, nil)
	case *AbsV:
		for _, f := range t.F {
			collectVars(f, ds)
		}
	}
}

func (x *Exec) assumeGlobalInvariants(s *State) {
	var pkgs []string
	for p := range x.P.Specs {
		pkgs = append(pkgs, p)
	}
	sort.Strings(pkgs)
	for _, p := range pkgs {
		ps := x.P.Specs[p]
		if x.isPkgInit() && x.fn.Pkg != nil && x.fn.Pkg.Pkg.Path() == p {
			// the package initialiser establishes its package's invariants
			continue
		}
		for _, gi := range ps.GlobalInvs {
			env := x.specEnv(s, nil)
			env.pkgPath = p
			t := env.evalBool(gi.Expr)
			s.assume(t)
			x.E.assumeNote("global-invariant " + shortPkg(p) + ": " + gi.Src)
		}
	}
}

// applyEffects performs the ghost assignments `effect g_x == expr` of a
// contract: specification-only variables change exactly as the contract says.
func (x *Exec) applyEffects(s *State, env *SpecEnv, c *Contract) {
	type upd struct {
		name string
		v    Val
	}
	var ups []upd
	for _, ef := range c.Effects {
		be, ok := ef.Expr.(*ast.BinaryExpr)
		if !ok || be.Op != token.EQL {
			x.errorf("%s:%d: effect needs the form `g_name == expr`", ef.File, ef.Line)
			continue
		}
		id, ok := be.X.(*ast.Ident)
		if !ok || !strings.HasPrefix(id.Name, "g_") {
			x.errorf("%s:%d: effect target must be a ghost variable g_*", ef.File, ef.Line)
			continue
		}
		ups = append(ups, upd{id.Name, env.eval(be.Y)})
	}
	env.syncFacts()
	for _, u := range ups {
		s.ghost[u.name] = u.v
		s.writes["ghost:var:"+u.name] = writeRec{obj: x.fsMarker()}
	}
}

// checkTypeInvariants: every object of a type with declared invariants
// that this function wrote to or allocated must satisfy them at return.
func (x *Exec) checkTypeInvariants(s *State) {
	seen := map[int]bool{}
	var objs []*Object
	for _, k := range sortedWriteKeys(s.writes) {
		rec, ok := x.ownerOf(s.writes[k])
		if !ok {
			continue
		}
		o := rec.obj
		if !seen[o.id] {
			seen[o.id] = true
			objs = append(objs, o)
		}
	}
	for _, o := range objs {
		if o.kind != "" {
			continue
		}
		x.checkInvOf(s, o.typ, x.E.objVal(s, o), o.name)
	}
}

// assumeInvOfWritten assumes the type invariants of the struct(s) enclosing
// a location a callee wrote (the callee checked them at its own return).
func (x *Exec) assumeInvOfWritten(s *State, rec writeRec) {
	if rec.obj.kind != "" {
		o, ok := x.E.owner[rec.obj.id]
		if !ok {
			return
		}
		rec = o
	}
	v := x.E.objVal(s, rec.obj)
	t := rec.obj.typ
	for depth := 0; ; depth++ {
		sv, ok := v.(*StructV)
		if !ok {
			return
		}
		if invs := x.P.invariantsOfType(t); len(invs) > 0 {
			env := x.specEnv(s, nil)
			env.vars = map[string]Val{"self": sv}
			env.pkgPath = t.(*types.Named).Obj().Pkg().Path()
			for _, inv := range invs {
				s.assume(env.evalAssumed(inv.Expr))
			}
		}
		for _, ci := range x.P.chanInvsOfType(t) {
			if idx, _, ok := fieldIndexDeep(t, ci.ChanSrc); ok && len(idx) == 1 {
				if cv, ok := sv.F[idx[0]].(*ChanV); ok && cv.Obj != nil {
					x.attachEngineChanInv(cv.Obj, ci)
				}
			}
		}
		if depth >= len(rec.fpath) {
			return
		}
		st, ok := under(t).(*types.Struct)
		if !ok || rec.fpath[depth] >= st.NumFields() {
			return
		}
		t = st.Field(rec.fpath[depth]).Type()
		v = sv.F[rec.fpath[depth]]
	}
}

func (x *Exec) checkInvOf(s *State, t types.Type, v Val, name string) {
	sv, ok := v.(*StructV)
	if !ok {
		return
	}
	if invs := x.P.invariantsOfType(t); len(invs) > 0 {
		env := x.specEnv(s, nil)
		env.vars = map[string]Val{"self": sv}
		env.pkgPath = t.(*types.Named).Obj().Pkg().Path()
		for _, inv := range invs {
			x.oblige(s, "type-invariant", fmt.Sprintf("%s/%s@return:%s", typeName(t), inv.Label, name), env.evalBool(inv.Expr), nil, inv.Src)
		}
	}
	for _, ci := range x.P.chanInvsOfType(t) {
		idx, _, ok := fieldIndexDeep(t, ci.ChanSrc)
		if !ok || len(idx) != 1 {
			continue
		}
		cv, ok := sv.F[idx[0]].(*ChanV)
		if !ok || cv.Obj == nil {
			continue // nil channels are covered by ordinary invariants
		}
		okInv := false
		for _, have := range x.chanInvsOf(s, cv) {
			if have.satisfies(ci) {
				okInv = true
			}
		}
		if cs, isCS := x.E.objVal(s, cv.Obj).(*ChanStore); isCS && cs.Local && cs.SentCnt.Op == "int" && cs.SentCnt.I.Sign() == 0 {
			okInv = true
		}
		x.oblige(s, "type-invariant", fmt.Sprintf("%s/chaninv:%s@return:%s", typeName(t), ci.Pred.Label, name), Bool(okInv), nil, "channel stored in "+ci.ChanSrc+" must carry "+ci.sig())
	}
	// embedded / nested struct fields
	if st, ok := under(t).(*types.Struct); ok {
		for i := 0; i < st.NumFields() && i < len(sv.F); i++ {
			if _, isStruct := under(st.Field(i).Type()).(*types.Struct); isStruct {
				x.checkInvOf(s, st.Field(i).Type(), sv.F[i], name+"."+st.Field(i).Name())
			}
		}
	}
}

func (x *Exec) atReturn(s *State, ret Val) {
	x.retCount++
	if len(x.dry) > 0 {
		return
	}
	x.checkTypeInvariants(s)
	// implicit frame of a function without an assigns clause: package-level
	// state is not written (a function that does needs a contract saying so)
	if x.c == nil || !x.c.HasAssigns {
		for _, k := range sortedWriteKeys(s.writes) {
			rec, ok := x.ownerOf(s.writes[k])
			if !ok || !rec.obj.global {
				continue
			}
			x.oblige(s, "frame", "global:"+rec.obj.name, TFalse, nil, "write to package-level state by a function without an assigns clause")
		}
	}
	// semaphore typestate: every slot taken by this activation is given back
	for _, k := range sortedWriteKeys(s.writes) {
		o := s.writes[k].obj
		if o.kind == "chan" && x.E.semaphores[o.id] {
			if cs, ok := x.E.objVal(s, o).(*ChanStore); ok {
				x.oblige(s, "typestate", "slot-returned:"+o.name, Eq(cs.Held, Int(0)), nil, "at return this activation must hold no token of the semaphore channel (neither kept nor over-released)")
			}
		}
	}
	if x.isPkgInit() && x.fn.Pkg != nil {
		if ps := x.P.Specs[x.fn.Pkg.Pkg.Path()]; ps != nil {
			for i, gi := range ps.GlobalInvs {
				env := x.specEnv(s, nil)
				lbl := gi.Label
				if lbl == "" {
					lbl = fmt.Sprintf("%d", i+1)
				}
				x.oblige(s, "post", "global-invariant:"+lbl, env.evalBool(gi.Expr), nil, gi.Src)
			}
		}
	}
	if x.c == nil {
		return
	}
	env := x.specEnv(s, nil)
	env.bindResults(x.fn, ret)
	x.applyEffects(s, env, x.c)
	for i, e := range x.c.Ensures {
		lbl := e.Label
		if lbl == "" {
			lbl = fmt.Sprintf("%d", i+1)
		}
		t := env.evalBool(e.Expr)
		x.oblige(s, "post", lbl, t, nil, e.Src)
	}
	// frame: every write to a caller-visible object must be covered by assigns
	if x.c.HasAssigns {
		var plainAssigns []string
		fsAllowed := false
		for _, a := range x.c.Assigns {
			if strings.TrimSpace(a) == "fs" {
				fsAllowed = true
				continue
			}
			if strings.HasPrefix(strings.TrimSpace(a), "g_") {
				continue
			}
			plainAssigns = append(plainAssigns, a)
		}
		for _, k := range sortedWriteKeys(s.writes) {
			if !strings.HasPrefix(k, "ghost:var:") || k == "ghost:var:cancelled" {
				continue
			}
			name := strings.TrimPrefix(k, "ghost:var:")
			listed := false
			for _, a := range x.c.Assigns {
				if strings.TrimSpace(a) == name {
					listed = true
				}
			}
			if !listed {
				x.oblige(s, "frame", "ghost:"+name, TFalse, nil, "ghost variable changed but not listed in assigns")
			}
		}
		if _, wrote := s.writes["ghost:fs"]; wrote && !fsAllowed {
			x.oblige(s, "frame", "ghost:fs", TFalse, nil, "file-system effect by a function whose assigns clause does not list fs")
		}
		allowed := x.assignRecs(s, plainAssigns, x.specEnvEntry(s))
		for _, k := range sortedWriteKeys(s.writes) {
			rec := s.writes[k]
			if !rec.obj.pre || rec.obj.kind == "chan" || rec.obj.name == "ghost:fs" || strings.HasPrefix(k, "ghost:") {
				continue
			}
			if strings.HasSuffix(rec.obj.name, "init$guard") {
				continue // the compiler's run-once flag of a package initialiser
			}
			if coveredBy(rec, allowed) {
				continue
			}
			x.oblige(s, "frame", rec.obj.name+fieldName(rec), TFalse, nil, "write to caller-visible location not listed in assigns")
		}
	}
}

func coveredBy(rec writeRec, allowed map[string]writeRec) bool {
	k := fmt.Sprintf("%d", rec.obj.id)
	if _, ok := allowed[k]; ok {
		return true
	}
	for _, f := range rec.fpath {
		k += fmt.Sprintf(".%d", f)
		if _, ok := allowed[k]; ok {
			return true
		}
	}
	for ak := range allowed {
		if strings.HasPrefix(ak, "elems:") && strings.HasPrefix(strings.TrimLeft(rec.obj.name, "*"), strings.TrimPrefix(ak, "elems:")) {
			return true
		}
	}
	return false
}

func fieldName(rec writeRec) string {
	t := rec.obj.typ
	out := ""
	for _, f := range rec.fpath {
		st, ok := under(t).(*types.Struct)
		if !ok || f >= st.NumFields() {
			out += fmt.Sprintf(".%d", f)
			continue
		}
		out += "." + st.Field(f).Name()
		t = st.Field(f).Type()
	}
	return out
}

func sortedWriteKeys(m map[string]writeRec) []string {
	var ks []string
	for k := range m {
		ks = append(ks, k)
	}
	sort.Strings(ks)
	return ks
}

func (x *Exec) runBlock(s *State, b *ssa.BasicBlock, pred *ssa.BasicBlock) {
	if s.dead {
		return
	}
	fn := b.Parent()
	// dry-run boundary: leaving the loop under discovery ends the path
	if n := len(x.dry); n > 0 {
		d := x.dry[n-1]
		if d.fn == fn && !d.loop.body[b] && len(s.frames) == d.depth() {
			for k, v := range s.writes {
				d.writes[k] = v
			}
			return
		}
	}
	s.trace = append(s.trace, b.Index)
	loops := x.loopsOf(fn)
	li := loops[b]
	// phis
	idx := 0
	if pred != nil {
		pi := -1
		for i, p := range b.Preds {
			if p == pred {
				pi = i
				break
			}
		}
		vals := map[*ssa.Phi]Val{}
		for _, instr := range b.Instrs {
			phi, ok := instr.(*ssa.Phi)
			if !ok {
				break
			}
			vals[phi] = x.val(s, phi.Edges[pi])
			idx++
		}
		for phi, v := range vals {
			x.setReg(s, phi, v)
			if phi.Comment != "" {
				s.top().names[phi.Comment] = v
			}
		}
	} else {
		for _, instr := range b.Instrs {
			if _, ok := instr.(*ssa.Phi); !ok {
				break
			}
			idx++
		}
	}
	if li != nil {
		if pred != nil && li.body[pred] {
			// back edge: invariant preservation, path ends
			if n := len(x.dry); n > 0 && x.dry[n-1].loop == li {
				for k, v := range s.writes {
					x.dry[n-1].writes[k] = v
				}
				return
			}
			x.checkInvariants(s, li, "inv-pres", b)
			x.checkLoopTypeInvs(s, li, "inv-pres")
			x.checkSteps(s, li)
			return
		}
		x.checkInvariants(s, li, "inv-init", b)
		if !x.enterLoop(s, li, b, pred) {
			return
		}
	}
	x.run(s, b, idx)
}

func (d *dryRun) depth() int { return d.frameDepth }

func (x *Exec) checkInvariants(s *State, li *loopInfo, kind string, b *ssa.BasicBlock) {
	if li.spec == nil || len(x.dry) > 0 {
		return
	}
	env := x.specEnvFrame(s)
	for i, inv := range li.spec.Invariants {
		lbl := inv.Label
		if lbl == "" {
			lbl = fmt.Sprintf("%d", i+1)
		}
		t := env.evalBool(inv.Expr)
		x.oblige(s, kind, fmt.Sprintf("%sloop%d/%s", s.top().prefix, li.ordinal, lbl), t, nil, inv.Src)
	}
}

func (x *Exec) checkLoopTypeInvs(s *State, li *loopInfo, kind string) {
	if len(x.dry) > 0 {
		return
	}
	for _, rec := range li.invObjs {
		v := x.E.objVal(s, rec.obj)
		t := rec.obj.typ
		name := rec.obj.name
		for depth := 0; ; depth++ {
			sv, ok := v.(*StructV)
			if !ok {
				break
			}
			if invs := x.P.invariantsOfType(t); len(invs) > 0 {
				env := x.specEnv(s, nil)
				env.vars = map[string]Val{"self": sv}
				env.pkgPath = t.(*types.Named).Obj().Pkg().Path()
				for _, inv := range invs {
					x.oblige(s, kind, fmt.Sprintf("%sloop%d/type-invariant:%s:%s", s.top().prefix, li.ordinal, inv.Label, name), env.evalBool(inv.Expr), nil, inv.Src)
				}
			}
			if depth >= len(rec.fpath) {
				break
			}
			st, ok := under(t).(*types.Struct)
			if !ok || rec.fpath[depth] >= st.NumFields() {
				break
			}
			name += "." + st.Field(rec.fpath[depth]).Name()
			t = st.Field(rec.fpath[depth]).Type()
			v = sv.F[rec.fpath[depth]]
		}
	}
}

// enterLoop havocs loop-carried state and assumes the invariant.
func (x *Exec) enterLoop(s *State, li *loopInfo, b *ssa.BasicBlock, pred *ssa.BasicBlock) bool {
	tag := fmt.Sprintf("L%d", li.ordinal)
	if p := s.top().prefix; p != "" {
		tag = p + tag
	}
	// automatic invariants for monotone counters (sound by construction)
	type autoInv struct {
		phi  *ssa.Phi
		init *Term
		up   bool
	}
	var autos []autoInv
	predIdx := -1
	for i, p := range b.Preds {
		if p == pred {
			predIdx = i
		}
	}
	for _, instr := range b.Instrs {
		phi, ok := instr.(*ssa.Phi)
		if !ok {
			break
		}
		if !isIntType(phi.Type()) || predIdx < 0 {
			continue
		}
		mono, up := true, true
		first := true
		for i, e := range phi.Edges {
			if !li.body[b.Preds[i]] {
				continue
			}
			bo, ok := e.(*ssa.BinOp)
			if !ok || (bo.Op != token.ADD && bo.Op != token.SUB) || bo.X != ssa.Value(phi) {
				mono = false
				break
			}
			c, ok := bo.Y.(*ssa.Const)
			if !ok || c.Value == nil {
				mono = false
				break
			}
			k, _ := constant.Int64Val(constant.ToInt(c.Value))
			dirUp := (bo.Op == token.ADD && k >= 0) || (bo.Op == token.SUB && k <= 0)
			if first {
				up = dirUp
				first = false
			} else if up != dirUp {
				mono = false
				break
			}
		}
		if mono && !first {
			if it, ok := x.val(s, phi).(*Term); ok {
				autos = append(autos, autoInv{phi, it, up})
			}
		}
	}
	x.adoptAllLocalChanInvs(s)
	// discover the set of locations written in the loop
	writes := map[string]writeRec{}
	if li.spec != nil && li.spec.HasAssigns {
		env := x.specEnvFrame(s)
		for k, rec := range x.assignRecs(s, li.spec.Assigns, env) {
			writes[k] = rec
		}
	} else {
		for iter := 0; iter < 6; iter++ {
			ds := s.clone()
			ds.writes = map[string]writeRec{}
			x.havocLoopState(ds, li, b, writes, tag)
			d := &dryRun{loop: li, fn: b.Parent(), writes: map[string]writeRec{}, frameDepth: len(ds.frames)}
			x.dry = append(x.dry, d)
			savedPaths := x.nPaths
			idx := 0
			for _, instr := range b.Instrs {
				if _, ok := instr.(*ssa.Phi); !ok {
					break
				}
				idx++
			}
			x.run(ds, b, idx)
			x.nPaths = savedPaths
			x.dry = x.dry[:len(x.dry)-1]
			grew := false
			for k, v := range d.writes {
				// only objects that existed before the loop matter
				if _, existed := s.heap[v.obj.id]; !existed && !v.obj.lazy {
					continue
				}
				if _, ok := writes[k]; !ok {
					// a whole-object write subsumes field writes
					writes[k] = v
					grew = true
				}
			}
			if !grew {
				break
			}
		}
	}
	// type invariants of the objects the loop writes: checked on entry and
	// on every back edge like declared loop invariants
	li.invObjs = nil
	seenObj := map[int]bool{}
	for _, k := range sortedWriteKeys(writes) {
		rec, ok := x.ownerOf(writes[k])
		if ok && !seenObj[rec.obj.id] {
			seenObj[rec.obj.id] = true
			li.invObjs = append(li.invObjs, rec)
		}
	}
	x.checkLoopTypeInvs(s, li, "inv-init")
	x.havocLoopState(s, li, b, writes, tag)
	for _, rec := range li.invObjs {
		x.assumeInvOfWritten(s, rec)
	}
	for _, a := range autos {
		cur := x.val(s, a.phi).(*Term)
		if a.up {
			s.assume(Ge(cur, a.init))
		} else {
			s.assume(Le(cur, a.init))
		}
	}
	if li.spec != nil {
		env := x.specEnvFrame(s)
		for _, inv := range li.spec.Invariants {
			if os.Getenv("GOVC_DEBUGINV") != "" {
				fmt.Fprintf(os.Stderr, "assume inv %s: %s\n", inv.Label, env.evalBool(inv.Expr))
			}
			env.assumeEnsures(inv.Expr, nil, nil)
		}
	}
	if li.spec != nil && len(li.spec.Steps) > 0 && !s.dead {
		if s.heads == nil {
			s.heads = map[*loopInfo]*State{}
		}
		s.heads[li] = s.clone()
	}
	return !s.dead
}

// checkSteps: the step clauses of a loop at a back edge.
func (x *Exec) checkSteps(s *State, li *loopInfo) {
	if li.spec == nil || len(li.spec.Steps) == 0 || len(x.dry) > 0 {
		return
	}
	head := s.heads[li]
	if head == nil {
		x.errorf("step clause: no head snapshot for loop %d", li.ordinal)
		return
	}
	env := x.specEnvFrame(s)
	env.prev = head
	for i, st := range li.spec.Steps {
		lbl := st.Label
		if lbl == "" {
			lbl = fmt.Sprintf("%d", i+1)
		}
		t := env.evalBool(st.Expr)
		x.oblige(s, "inv-pres", fmt.Sprintf("%sloop%d/step:%s", s.top().prefix, li.ordinal, lbl), t, nil, st.Src)
	}
}

func (x *Exec) havocLoopState(s *State, li *loopInfo, b *ssa.BasicBlock, writes map[string]writeRec, tag string) {
	var facts []*Term
	for _, instr := range b.Instrs {
		phi, ok := instr.(*ssa.Phi)
		if !ok {
			break
		}
		nm := phi.Comment
		if nm == "" {
			nm = phi.Name()
		}
		v := x.E.freshVal(phi.Type(), fmt.Sprintf("%s@%s.%s", nm, tag, phi.Name()), &facts)
		x.setReg(s, phi, v)
		if phi.Comment != "" {
			s.top().names[phi.Comment] = v
		}
	}
	for _, f := range facts {
		s.assume(f)
	}
	saved := s.writes
	s.writes = map[string]writeRec{}
	for _, k := range sortedWriteKeys(writes) {
		if k == "ghost:fs" {
			x.fsHavoc(s, tag)
			continue
		}
		if strings.HasPrefix(k, "ghost:var:") {
			name := strings.TrimPrefix(k, "ghost:var:")
			if name == "cancelled" {
				s.ghost[name] = Var("cancelled@"+tag, SBool)
			} else {
				s.ghost[name] = Var(name+"@"+tag, ghostSort(name))
			}
			s.writes[k] = writes[k]
			continue
		}
		x.havoc(s, writes[k], tag)
	}
	for k, v := range s.writes {
		saved[k] = v
	}
	s.writes = saved
}

func (x *Exec) pathBudget() bool {
	x.nPaths++
	if x.nPaths > x.maxPaths {
		x.errorf("%s: more than %d paths", fnDisplay(x.fn), x.maxPaths)
		return false
	}
	return true
}

func (x *Exec) run(s *State, b *ssa.BasicBlock, idx int) {
	for i := idx; i < len(b.Instrs); i++ {
		if s.dead {
			return
		}
		instr := b.Instrs[i]
		switch in := instr.(type) {
		case *ssa.If:
			c := x.term(s, in.Cond)
			if c.IsTrue() {
				x.runBlock(s, b.Succs[0], b)
				return
			}
			if c.IsFalse() {
				x.runBlock(s, b.Succs[1], b)
				return
			}
			if !x.pathBudget() {
				return
			}
			s2 := s.clone()
			s.assume(c)
			x.runBlock(s, b.Succs[0], b)
			s2.assume(Not(c))
			x.runBlock(s2, b.Succs[1], b)
			return
		case *ssa.Jump:
			x.runBlock(s, b.Succs[0], b)
			return
		case *ssa.Return:
			var ret Val
			switch len(in.Results) {
			case 0:
			case 1:
				ret = x.val(s, in.Results[0])
			default:
				tv := &TupleV{}
				for _, r := range in.Results {
					tv.E = append(tv.E, x.val(s, r))
				}
				ret = tv
			}
			x.doReturn(s, ret)
			return
		case *ssa.Panic:
			x.oblige(s, "panic", x.label(s, instr), TFalse, instr, "explicit panic reachable")
			return
		case *ssa.Call:
			bb, ii := b, i
			x.call(s, in, in.Common(), func(s *State, ret Val) {
				if ret != nil {
					x.setReg(s, in, ret)
				}
				x.run(s, bb, ii+1)
			})
			return
		case *ssa.RunDefers:
			bb, ii := b, i
			fr := s.top()
			ds := fr.defers
			fr.defers = nil
			x.runDefers(s, ds, func(s *State) { x.run(s, bb, ii+1) })
			return
		case *ssa.Select:
			x.execSelect(s, in, b, i)
			return
		default:
			x.step(s, instr)
		}
	}
}

func (x *Exec) doReturn(s *State, ret Val) {
	fr := s.top()
	k := fr.k
	if len(s.frames) > 1 {
		s.frames = s.frames[:len(s.frames)-1]
	}
	if k != nil {
		k(s, ret)
	}
}

func (x *Exec) runDefers(s *State, ds []deferred, k func(s *State)) {
	if len(ds) == 0 {
		k(s)
		return
	}
	d := ds[len(ds)-1]
	rest := ds[:len(ds)-1]
	x.callValue(s, d.site, d.call, d.fn, d.args, func(s *State, ret Val) {
		x.runDefers(s, rest, k)
	})
}

// ---------------------------------------------------------------- select

func (x *Exec) execSelect(s *State, in *ssa.Select, b *ssa.BasicBlock, i int) {
	n := len(in.States)
	// result tuple: (index int, recvOk bool, r_0 T_0, ... r_{n-1} T_{n-1}) for recv states
	cases := n
	if !in.Blocking {
		cases = n + 1
	}
	for ci := 0; ci < cases; ci++ {
		if !x.pathBudget() {
			return
		}
		var ps *State
		if ci == cases-1 {
			ps = s
		} else {
			ps = s.clone()
		}
		// channels used by one goroutine only: a case is enabled by the fill level
		if ci < n {
			st := in.States[ci]
			if x.isSeq(ps, x.val(ps, st.Chan)) {
				if _, cs := x.chanStore(ps, x.val(ps, st.Chan)); cs != nil && cs.Len != nil {
					if st.Dir == types.RecvOnly {
						ps.assume(Gt(cs.Len, Int(0)))
					} else {
						ps.assume(Lt(cs.Len, cs.Cap))
					}
				}
			}
		} else {
			for _, st := range in.States {
				if x.isSeq(ps, x.val(ps, st.Chan)) {
					if _, cs := x.chanStore(ps, x.val(ps, st.Chan)); cs != nil && cs.Len != nil {
						if st.Dir == types.RecvOnly {
							ps.assume(Le(cs.Len, Int(0)))
						} else {
							ps.assume(Ge(cs.Len, cs.Cap))
						}
					}
				}
			}
		}
		if ps.dead {
			continue
		}
		tv := &TupleV{}
		idx := ci
		if ci == n {
			idx = -1
			// default of a non-blocking select: a receive from a semaphore this
			// activation holds a token of cannot find the channel empty
			for _, st := range in.States {
				if st.Dir == types.RecvOnly {
					if c, cs := x.chanStore(ps, x.val(ps, st.Chan)); cs != nil && x.E.semaphores[c.Obj.id] {
						ps.assume(Le(cs.Held, Int(0)))
						x.E.assumeNote("semaphore protocol (rely): tokens an activation holds are physically in the channel, so a non-blocking receive cannot fall through to default while it holds one")
					}
				}
			}
		}
		tv.E = append(tv.E, Int(int64(idx)))
		okv := Var(fmt.Sprintf("%s.%s.recvok%d", fnDisplay(in.Parent()), in.Name(), ci), SBool)
		tv.E = append(tv.E, okv)
		for si, st := range in.States {
			if st.Dir != types.RecvOnly {
				continue
			}
			ct := under(st.Chan.Type()).(*types.Chan)
			if si == ci {
				cv := x.val(ps, st.Chan)
				rv := x.chanRecv(ps, cv, ct.Elem(), fmt.Sprintf("§%s.%s.recv%d", fnDisplay(in.Parent()), in.Name(), si), okv, in)
				tv.E = append(tv.E, rv)
			} else {
				tv.E = append(tv.E, x.E.zeroVal(ct.Elem(), "sel"))
			}
		}
		if ci < n && in.States[ci].Dir == types.SendOnly {
			cv := x.val(ps, in.States[ci].Chan)
			x.chanSend(ps, cv, x.val(ps, in.States[ci].Send), in)
		}
		x.setReg(ps, in, tv)
		x.run(ps, b, i+1)
	}
}

func (x *Exec) chanStore(s *State, cv Val) (*ChanV, *ChanStore) {
	c, ok := cv.(*ChanV)
	if !ok || c.Obj == nil {
		return c, nil
	}
	cs, _ := x.E.objVal(s, c.Obj).(*ChanStore)
	return c, cs
}

func (x *Exec) chanRecv(s *State, cv Val, elem types.Type, name string, okv *Term, site ssa.Instruction) Val {
	var facts []*Term
	v := x.E.freshVal(elem, name, &facts)
	for _, f := range facts {
		s.assume(f)
	}
	if cc, ok := cv.(*ChanV); ok {
		for _, ci := range x.chanInvsOf(s, cc) {
			if ci.Open {
				s.assume(okv)
			}
			if lbl, ok := carriesLabel(ci); ok {
				// the received channel carries the named invariant
				if rc, ok := v.(*ChanV); ok && rc.Obj != nil {
					if d := x.P.chanInvByLabel(lbl); d != nil {
						x.attachEngineChanInv(rc.Obj, d)
					} else {
						x.errorf("carries: unknown channel invariant label %q", lbl)
					}
				}
				continue
			}
			s.assume(Implies(okv, x.chanPred(s, ci, v)))
		}
	}
	x.recvOk = okv
	x.onChanClauses(s, cv, v, site, true)
	x.recvOk = nil
	if cc, ok := cv.(*ChanV); ok && cc.Obj != nil && strings.HasSuffix(cc.Obj.name, ".done$chan") {
		s.ghost["cancelled"] = TTrue
		s.writes["ghost:var:cancelled"] = writeRec{obj: x.fsMarker()}
	}
	c, cs := x.chanStore(s, cv)
	if cs != nil && cs.Closed != nil {
		// a receive that completes without a value means the channel is closed
		s.assume(Implies(Not(okv), cs.Closed))
	}
	if cs != nil && x.E.semaphores[c.Obj.id] {
		// releasing a slot: only a slot this activation holds may be taken out
		goal := Ge(cs.Held, Int(1))
		x.oblige(s, "typestate", "release-only-if-held@"+x.label(s, site), goal, site, "a token is received from the semaphore channel while this activation holds none (it would release a slot that belongs to another read)")
		s.assume(goal)
		if s.dead {
			return v
		}
	}
	if cs != nil {
		n := *cs
		if x.E.semaphores[c.Obj.id] {
			n.Held = Sub(cs.Held, Int(1))
		}
		if cs.Len != nil {
			n.Len = Sub(cs.Len, Int(1))
		}
		n.RecvCnt = Add(cs.RecvCnt, Int(1))
		s.heap[c.Obj.id] = &n
		x.recordWrite(s, c.Obj, nil)
		x.ghostOnRecv(s, c, &n, site)
	}
	return v
}

func (x *Exec) chanSend(s *State, cv Val, v Val, site ssa.Instruction) {
	if cc, ok := cv.(*ChanV); ok {
		for _, ci := range x.chanInvsOf(s, cc) {
			if lbl, ok := carriesLabel(ci); ok {
				found := false
				d := x.P.chanInvByLabel(lbl)
				if sc, ok := v.(*ChanV); ok && sc.Obj != nil && d != nil {
					for _, have := range x.chanInvsOf(s, sc) {
						if have.satisfies(d) {
							found = true
						}
					}
					if !found {
						if cs, ok := x.E.objVal(s, sc.Obj).(*ChanStore); ok && cs.Local && cs.SentCnt.Op == "int" && cs.SentCnt.I.Sign() == 0 {
							n := *cs
							n.Invs = append(append([]*ChanInvDecl(nil), cs.Invs...), d)
							s.heap[sc.Obj.id] = &n
							found = true
						}
					}
				}
				x.oblige(s, "chaninv", fmt.Sprintf("%s@%s", ci.Pred.Label, x.label(s, site)), Bool(found), site, "channel sent must carry invariant "+lbl)
				continue
			}
			x.oblige(s, "chaninv", fmt.Sprintf("%s@%s", ci.Pred.Label, x.label(s, site)), x.chanPredCh(s, ci, v, cc), site, "value sent must satisfy the channel invariant: "+ci.Pred.Src)
		}
	}
	x.onSendClauses(s, cv, v, site)
	c, cs := x.chanStore(s, cv)
	if cs == nil {
		return
	}
	n := *cs
	if x.E.semaphores[c.Obj.id] {
		n.Held = Add(cs.Held, Int(1))
	}
	n.SentCnt = Add(cs.SentCnt, Int(1))
	if cs.Len != nil {
		n.Len = Add(cs.Len, Int(1))
	}
	if cnt, ok := x.countField(s, v); ok {
		n.LastCount = cnt
	}
	if n.Sent != nil {
		n.Sent = x.ghostSentAppend(s, n.Sent, v)
	}
	s.heap[c.Obj.id] = &n
	x.recordWrite(s, c.Obj, nil)
	x.ghostOnSend(s, c, &n, site)
}

// ghostSentAppend appends a rendering of a byte-like payload to the ghost
// history of a channel: strings and *bytes.Buffer contents are concatenated,
// each terminated by the record separator 0x1e; other payloads add nothing.
func (x *Exec) ghostSentAppend(s *State, hist *Term, v Val) *Term {
	switch p := v.(type) {
	case *Term:
		if p.S == SString {
			return Concat(hist, p, Str("\x1e"))
		}
	case *PtrV:
		if p.Obj != nil && qualifiedTypeName(p.Elem) == "bytes.Buffer" {
			if a, ok := x.load(s, p).(*AbsV); ok {
				return Concat(hist, a.F["content"].(*Term), Str("\x1e"))
			}
		}
	}
	return hist
}

// onSendClauses applies the at-send assertions and on-send ghost effects
// that the current function's contract declares for this channel.
func (x *Exec) onSendClauses(s *State, cv Val, v Val, site ssa.Instruction) {
	x.onChanClauses(s, cv, v, site, false)
}

func (x *Exec) onChanClauses(s *State, cv Val, v Val, site ssa.Instruction, recv bool) {
	c, ok := cv.(*ChanV)
	if !ok || c.Obj == nil || len(s.frames) == 0 {
		return
	}
	cf := x.clauseFrame(s)
	ct := x.P.contractFor(cf.fn)
	if ct == nil || len(ct.OnSends) == 0 {
		return
	}
	env := x.specEnvOf(s, cf)
	env.quiet = true
	type upd struct {
		name string
		v    Val
	}
	var ups []upd
	for _, oc := range ct.OnSends {
		if oc.Recv != recv {
			continue
		}
		ev := env.eval(oc.ChanExpr)
		tv, ok := ev.(*ChanV)
		if os.Getenv("GOVC_DEBUGCHAN") != "" {
			fmt.Fprintf(os.Stderr, "onchan %s recv=%v eval=%T ok=%v same=%v\n", oc.ChanSrc, recv, ev, ok, ok && tv.Obj == c.Obj)
		}
		if !ok || tv.Obj != c.Obj {
			continue
		}
		x.clauseHit[oc] = true
		env.quiet = false
		env.lets["elem"] = v
		env.lets["ch"] = c
		if oc.Assert != nil {
			x.checkParamsUnchanged(s, oc.Assert.Expr, "at-send "+oc.ChanSrc+" ["+oc.Assert.Label+"]")
			t := env.evalBool(oc.Assert.Expr)
			x.oblige(s, "assert", fmt.Sprintf("%s@%s", oc.Assert.Label, x.label(s, site)), t, site, oc.Assert.Src)
			s.assume(t)
		}
		if oc.Effect != nil {
			if be, ok := oc.Effect.Expr.(*ast.BinaryExpr); ok && be.Op == token.EQL {
				if id, ok := be.X.(*ast.Ident); ok && strings.HasPrefix(id.Name, "g_") {
					ups = append(ups, upd{id.Name, env.eval(be.Y)})
				}
			}
		}
		env.quiet = true
	}
	env.syncFacts()
	for _, u := range ups {
		nv := u.v
		if recv && x.recvOk != nil && !x.recvOk.IsTrue() {
			// nothing was received when the channel is closed
			if nt, ok := nv.(*Term); ok {
				cur, has := s.ghost[u.name].(*Term)
				if !has {
					cur = Var(u.name+"@entry", ghostSort(u.name))
				}
				nv = Ite(x.recvOk, nt, cur)
			}
		}
		s.ghost[u.name] = nv
		s.writes["ghost:var:"+u.name] = writeRec{obj: x.fsMarker()}
	}
}

// countField reads the Count field of a sent *struct payload, if it has one.
func (x *Exec) countField(s *State, v Val) (*Term, bool) {
	pv, ok := v.(*PtrV)
	if !ok || pv.Obj == nil {
		return nil, false
	}
	idx, _, ok := fieldIndexDeep(pv.Elem, "Count")
	if !ok || len(idx) != 1 {
		return nil, false
	}
	sv, ok := x.load(s, pv).(*StructV)
	if !ok {
		return nil, false
	}
	t, ok := sv.F[idx[0]].(*Term)
	return t, ok
}

// isSeq: the channel carries a `seq:` invariant (single-goroutine use).
func (x *Exec) isSeq(s *State, cv Val) bool {
	c, ok := cv.(*ChanV)
	if !ok || c.Obj == nil {
		return false
	}
	for _, ci := range x.chanInvsOf(s, c) {
		if ci.Seq {
			return true
		}
	}
	return false
}

func (x *Exec) ghostOnSend(s *State, c *ChanV, cs *ChanStore, site ssa.Instruction) {}
func (x *Exec) ghostOnRecv(s *State, c *ChanV, cs *ChanStore, site ssa.Instruction) {}

// ---------------------------------------------------------------- channel invariants

func (x *Exec) attachEngineChanInv(o *Object, ci *ChanInvDecl) {
	if os.Getenv("GOVC_DEBUGCHAN") != "" {
		fmt.Fprintf(os.Stderr, "attach %s (#%d) %s dry=%d\n", o.name, o.id, ci.sig(), len(x.dry))
		if os.Getenv("GOVC_DEBUGCHAN") == "2" && !ci.Open && strings.HasSuffix(o.name, "baseHandler.lines$chan") {
			debug.PrintStack()
		}
	}
	for _, e := range x.E.chanInvs[o.id] {
		if e.sig() == ci.sig() {
			return
		}
	}
	x.E.chanInvs[o.id] = append(x.E.chanInvs[o.id], ci)
	x.E.assumeNote("channel invariant assumed for channels received from outside: " + ci.sig())
}

// adoptLocalChanInvs: a channel made by this function adopts the invariants
// the function declares for the variable / field currently holding it.
func (x *Exec) adoptLocalChanInvs(s *State, c *ChanV) {
	if c == nil || c.Obj == nil || len(s.frames) == 0 {
		return
	}
	fr := s.top()
	ct := x.P.contractFor(fr.fn)
	if ct == nil || len(ct.ChanInvs) == 0 {
		return
	}
	cs, ok := x.E.objVal(s, c.Obj).(*ChanStore)
	if !ok || !cs.Local {
		return
	}
	env := x.specEnvFrame(s)
	env.quiet = true
	for _, ci := range ct.ChanInvs {
		v := env.eval(ci.ChanExpr)
		cv, ok := v.(*ChanV)
		if !ok || cv.Obj != c.Obj {
			continue
		}
		has := false
		for _, e := range cs.Invs {
			if e.sig() == ci.sig() {
				has = true
			}
		}
		if !has {
			if !(cs.SentCnt.Op == "int" && cs.SentCnt.I.Sign() == 0) {
				continue // something was already sent unchecked
			}
			n := *cs
			n.Invs = append(append([]*ChanInvDecl(nil), cs.Invs...), ci)
			s.heap[c.Obj.id] = &n
			cs = &n
		}
	}
}

// adoptAllLocalChanInvs lets every channel made by the current function adopt
// the invariants the function declares for the variable holding it.
func (x *Exec) adoptAllLocalChanInvs(s *State) {
	if len(s.frames) == 0 {
		return
	}
	ct := x.P.contractFor(s.top().fn)
	if ct == nil {
		return
	}
	env := x.specEnvFrame(s)
	env.quiet = true
	for _, ci := range ct.ChanInvs {
		if cv, ok := env.eval(ci.ChanExpr).(*ChanV); ok && cv.Obj != nil {
			x.adoptLocalChanInvs(s, cv)
		}
	}
}

func (x *Exec) chanInvsOf(s *State, c *ChanV) []*ChanInvDecl {
	if c == nil || c.Obj == nil {
		return nil
	}
	x.adoptLocalChanInvs(s, c)
	out := append([]*ChanInvDecl(nil), x.E.chanInvs[c.Obj.id]...)
	if cs, ok := x.E.objVal(s, c.Obj).(*ChanStore); ok {
		out = append(out, cs.Invs...)
	}
	return out
}

func (x *Exec) chanPred(s *State, ci *ChanInvDecl, elem Val) *Term {
	return x.chanPredCh(s, ci, elem, nil)
}

func (x *Exec) chanPredCh(s *State, ci *ChanInvDecl, elem Val, ch *ChanV) *Term {
	env := x.specEnv(s, nil)
	env.vars = map[string]Val{"elem": elem}
	if ch != nil {
		env.vars["ch"] = ch
	}
	env.frame = nil
	env.pkgPath = ci.Pkg
	return env.evalBool(ci.Pred.Expr)
}

// entryChanInvs attaches the function's declared channel invariants to the
// channels its parameters / receiver fields designate at entry.
func (x *Exec) entryChanInvs(s *State) {
	if x.c == nil {
		return
	}
	env := x.specEnv(s, nil)
	env.quiet = true
	for _, ci := range x.c.ChanInvs {
		v := env.eval(ci.ChanExpr)
		if cv, ok := v.(*ChanV); ok && cv.Obj != nil && cv.Obj.lazy {
			x.attachEngineChanInv(cv.Obj, ci)
		}
	}
	env.syncFacts()
}

// ---------------------------------------------------------------- single steps

func (x *Exec) nonNil(s *State, instr ssa.Instruction, v Val) {
	var nilT *Term
	switch p := v.(type) {
	case *PtrV:
		nilT = p.Nil
		if p.Obj == nil {
			nilT = TTrue
		}
	case *MapV:
		nilT = p.Nil
		if p.Obj == nil {
			nilT = TTrue
		}
	default:
		return
	}
	x.check(s, "nil", instr, Not(nilT), "nil dereference")
}

func (x *Exec) step(s *State, instr ssa.Instruction) {
	switch in := instr.(type) {
	case *ssa.DebugRef:
		// `x := e` / `x = e`: the value of the right-hand side expression is
		// the new value of x (lifted locals get no DebugRef of their own at
		// the definition)
		if !in.IsAddr {
			if name, ok := x.assignTargets(in.Parent())[in.Expr.Pos()]; ok {
				s.top().names[name] = x.val(s, in.X)
			}
		}
		if id, ok := in.Expr.(*ast.Ident); ok {
			if tv, isVar := in.Object().(*types.Var); isVar && tv.IsField() {
				return // a field selector, not a variable
			}
			v := x.val(s, in.X)
			if in.IsAddr {
				s.top().names["&"+id.Name] = v
			} else {
				s.top().names[id.Name] = v
			}
		}
	case *ssa.Alloc:
		elem := in.Type().(*types.Pointer).Elem()
		name := fmt.Sprintf("%s%s.%s", s.top().prefix, shortFn(in.Parent()), in.Name())
		if in.Comment != "" {
			name += ":" + in.Comment
		}
		o := x.E.newObject(name, elem)
		s.heap[o.id] = x.E.zeroStore(o)
		pv := &PtrV{Nil: TFalse, Obj: o, Elem: elem}
		x.setReg(s, in, pv)
		if in.Comment != "" && in.Comment != "varargs" && in.Comment != "complit" {
			s.top().names["&"+in.Comment] = pv
		}
	case *ssa.BinOp:
		x.setReg(s, in, x.binop(s, in))
	case *ssa.UnOp:
		x.setReg(s, in, x.unop(s, in))
	case *ssa.ChangeInterface:
		x.setReg(s, in, x.val(s, in.X))
	case *ssa.ChangeType:
		v := x.val(s, in.X)
		if sv, ok := v.(*StructV); ok {
			v = &StructV{Typ: in.Type(), F: sv.F}
		}
		x.setReg(s, in, v)
	case *ssa.Convert:
		x.setReg(s, in, x.convert(s, in))
	case *ssa.MultiConvert:
		var facts []*Term
		x.setReg(s, in, x.E.freshVal(in.Type(), regName(in), &facts))
		x.E.note("MultiConvert")
	case *ssa.Defer:
		fr := s.top()
		var args []Val
		for _, a := range in.Call.Args {
			args = append(args, x.val(s, a))
		}
		var fv Val
		if !in.Call.IsInvoke() {
			fv = x.val(s, in.Call.Value)
		} else {
			fv = x.val(s, in.Call.Value)
		}
		fr.defers = append(fr.defers, deferred{call: &in.Call, fn: fv, args: args, site: in})
	case *ssa.Go:
		x.E.note("go statement: spawned function verified separately, interleavings not explored")
		// the spawned callee's preconditions are still checked at the spawn site
		x.goCall(s, in)
	case *ssa.Extract:
		tv, ok := x.val(s, in.Tuple).(*TupleV)
		if !ok || in.Index >= len(tv.E) {
			x.errorf("extract from non-tuple %T", x.val(s, in.Tuple))
			var facts []*Term
			x.setReg(s, in, x.E.freshVal(in.Type(), regName(in), &facts))
			return
		}
		x.setReg(s, in, tv.E[in.Index])
	case *ssa.Field:
		v := x.val(s, in.X)
		sv, ok := v.(*StructV)
		if !ok {
			x.errorf("Field of %T", v)
			var facts []*Term
			x.setReg(s, in, x.E.freshVal(in.Type(), regName(in), &facts))
			return
		}
		x.setReg(s, in, sv.F[in.Field])
	case *ssa.FieldAddr:
		v := x.val(s, in.X)
		p, ok := v.(*PtrV)
		if !ok {
			x.errorf("FieldAddr of %T", v)
			return
		}
		x.nonNil(s, in, p)
		if p.Obj == nil {
			s.dead = true
			return
		}
		np := &PtrV{Nil: TFalse, Obj: p.Obj, Path: append(append([]PathElem(nil), p.Path...), PathElem{Field: in.Field}), Elem: in.Type().(*types.Pointer).Elem()}
		x.setReg(s, in, np)
	case *ssa.Index:
		x.setReg(s, in, x.index(s, in))
	case *ssa.IndexAddr:
		x.indexAddr(s, in)
	case *ssa.Lookup:
		x.lookup(s, in)
	case *ssa.MakeChan:
		sz := x.term(s, in.Size)
		es := int64(8)
		if ct, ok := under(in.Type()).(*types.Chan); ok {
			es = sizeofType(ct.Elem())
		}
		// two obligations, so that a finding about one failure class (e.g. an
		// unchecked huge capacity) does not hide the other (a negative one)
		neg := Ge(sz, Int(0))
		x.oblige(s, "makechan", x.label(s, in)+"/negative", neg, in, "make(chan, n): negative n panics")
		s.assume(neg)
		if es > 0 {
			big := Le(Mul(sz, Int(es)), Int((1<<48)-96))
			x.oblige(s, "makechan", x.label(s, in)+"/too-large", big, in, "make(chan, n): too large n panics")
			s.assume(big)
		}
		o := x.E.storeObject(fmt.Sprintf("%s%s.%s:chan", s.top().prefix, shortFn(in.Parent()), in.Name()), in.Type(), false, "chan")
		s.heap[o.id] = &ChanStore{Cap: sz, Closed: TFalse, SentCnt: Int(0), RecvCnt: Int(0), Held: Int(0), Sent: Str(""), Local: true, Len: Int(0), LastCount: Int(0)}
		x.setReg(s, in, &ChanV{Nil: TFalse, Obj: o, Elem: under(in.Type()).(*types.Chan).Elem()})
	case *ssa.MakeClosure:
		var binds []Val
		for _, b := range in.Bindings {
			binds = append(binds, x.val(s, b))
		}
		x.setReg(s, in, &FuncV{Nil: TFalse, Fn: in.Fn.(*ssa.Function), Bind: binds, Sig: in.Fn.(*ssa.Function).Signature})
	case *ssa.MakeInterface:
		x.E.nextObj++
		iv := &IfaceV{Nil: TFalse, Dyn: in.X.Type(), V: x.val(s, in.X), Typ: in.Type(), Opaque: Int(int64(2000000 + x.E.nextObj))}
		x.E.ifaces[int64(2000000+x.E.nextObj)] = iv
		x.setReg(s, in, iv)
	case *ssa.MakeMap:
		mt := under(in.Type()).(*types.Map)
		o := x.E.storeObject(fmt.Sprintf("%s%s.%s:map", s.top().prefix, shortFn(in.Parent()), in.Name()), in.Type(), false, "map")
		s.heap[o.id] = x.E.zeroStore(o)
		x.setReg(s, in, &MapV{Nil: TFalse, Obj: o, K: mt.Key(), V: mt.Elem()})
	case *ssa.MakeSlice:
		ln := x.term(s, in.Len)
		cp := x.term(s, in.Cap)
		st := under(in.Type()).(*types.Slice)
		es := sizeofType(st.Elem())
		goal := And(Ge(ln, Int(0)), Le(ln, cp))
		if es > 0 {
			goal = And(goal, Le(Mul(cp, Int(es)), Int(1<<48)))
		}
		x.check(s, "makeslice", in, goal, "make([]T, len, cap): negative or too large panics")
		o := x.E.storeObject(fmt.Sprintf("%s%s.%s:arr", s.top().prefix, shortFn(in.Parent()), in.Name()), types.NewArray(st.Elem(), 0), false, "arr")
		if isByteType(st.Elem()) {
			zs := Var(o.name+".zeros", SString)
			i := Var("i!z", SInt)
			s.assume(Eq(StrLen(zs), cp))
			s.assume(Forall([]*Term{i}, Implies(And(Ge(i, Int(0)), Lt(i, cp)), Eq(StrCode(StrAt(zs, i)), Int(0)))))
			s.heap[o.id] = &ArrV{Elem: st.Elem(), IsStr: true, T: zs}
		} else {
			s.heap[o.id] = &ArrV{Elem: st.Elem(), T: ConstArr(SArr(SInt, x.E.elemSort(st.Elem())), x.E.zeroTerm(st.Elem()))}
		}
		x.setReg(s, in, &SliceV{Nil: TFalse, Obj: o, Off: Int(0), Len: ln, Cap: cp, Elem: st.Elem()})
	case *ssa.MapUpdate:
		mv, ok := x.val(s, in.Map).(*MapV)
		if !ok {
			x.errorf("MapUpdate on %T", x.val(s, in.Map))
			return
		}
		x.nonNil(s, in, mv)
		if mv.Obj == nil {
			s.dead = true
			return
		}
		ms := x.E.objVal(s, mv.Obj).(*MapStore)
		k := x.E.toTerm(s, x.val(s, in.Key), mv.K)
		v := x.E.toTerm(s, x.val(s, in.Value), mv.V)
		n := &MapStore{Dom: Store(ms.Dom, k, TTrue), Val: Store(ms.Val, k, v), Len: Ite(Select(ms.Dom, k), ms.Len, Add(ms.Len, Int(1)))}
		s.heap[mv.Obj.id] = n
		x.recordWrite(s, mv.Obj, nil)
	case *ssa.Range:
		x.setReg(s, in, &IterV{X: x.val(s, in.X), T: in.X.Type()})
	case *ssa.Next:
		x.next(s, in)
	case *ssa.Send:
		x.chanSend(s, x.val(s, in.Chan), x.val(s, in.X), in)
	case *ssa.Slice:
		x.slice(s, in)
	case *ssa.Store:
		v := x.val(s, in.Addr)
		p, ok := v.(*PtrV)
		if !ok {
			x.errorf("Store to %T", v)
			return
		}
		x.nonNil(s, in, p)
		x.store(s, p, x.val(s, in.Val))
	case *ssa.TypeAssert:
		x.typeAssert(s, in)
	case *ssa.SliceToArrayPointer:
		var facts []*Term
		x.setReg(s, in, x.E.freshVal(in.Type(), regName(in), &facts))
		x.E.note("SliceToArrayPointer")
	case *ssa.Phi:
		// handled at block entry
	default:
		x.errorf("unsupported instruction %T in %s", instr, fnDisplay(instr.Parent()))
	}
}

// assignTargets maps the position of the right-hand side of every 1:1
// assignment in fn's syntax to the name of the assigned variable.
func (x *Exec) assignTargets(fn *ssa.Function) map[token.Pos]string {
	if m, ok := x.assignRhs[fn]; ok {
		return m
	}
	m := map[token.Pos]string{}
	if x.assignRhs == nil {
		x.assignRhs = map[*ssa.Function]map[token.Pos]string{}
	}
	x.assignRhs[fn] = m
	syn := fn.Syntax()
	if syn == nil {
		return m
	}
	unparen := func(e ast.Expr) ast.Expr {
		for {
			p, ok := e.(*ast.ParenExpr)
			if !ok {
				return e
			}
			e = p.X
		}
	}
	ast.Inspect(syn, func(n ast.Node) bool {
		switch st := n.(type) {
		case *ast.FuncLit:
			if ast.Node(st) != syn {
				return false
			}
		case *ast.AssignStmt:
			if len(st.Lhs) == len(st.Rhs) && (st.Tok == token.DEFINE || st.Tok == token.ASSIGN) {
				for i, l := range st.Lhs {
					if id, ok := l.(*ast.Ident); ok && id.Name != "_" {
						m[unparen(st.Rhs[i]).Pos()] = id.Name
					}
				}
			}
		case *ast.ValueSpec:
			if len(st.Names) == len(st.Values) {
				for i, id := range st.Names {
					if id.Name != "_" {
						m[unparen(st.Values[i]).Pos()] = id.Name
					}
				}
			}
		}
		return true
	})
	return m
}

type IterV struct {
	X Val
	T types.Type
}

func shortFn(fn *ssa.Function) string {
	return funcKey(fn)
}

func regName(v ssa.Value) string {
	fn := v.Parent()
	if fn == nil {
		return v.Name()
	}
	return fnDisplay(fn) + "." + v.Name()
}

func sizeofType(t types.Type) int64 {
	switch u := under(t).(type) {
	case *types.Basic:
		switch u.Kind() {
		case types.Bool, types.Int8, types.Uint8:
			return 1
		case types.Int16, types.Uint16:
			return 2
		case types.Int32, types.Uint32, types.Float32:
			return 4
		case types.String:
			return 16
		}
		return 8
	case *types.Struct:
		var n int64
		for i := 0; i < u.NumFields(); i++ {
			sz := sizeofType(u.Field(i).Type())
			if sz >= 8 {
				n = (n + 7) / 8 * 8
			}
			n += sz
		}
		return n
	case *types.Slice:
		return 24
	case *types.Interface:
		return 16
	case *types.Array:
		return u.Len() * sizeofType(u.Elem())
	}
	return 8
}

// ---------------------------------------------------------------- operators

func (x *Exec) binop(s *State, in *ssa.BinOp) Val {
	a, b := x.val(s, in.X), x.val(s, in.Y)
	at, aok := a.(*Term)
	bt, bok := b.(*Term)
	if aok && bok {
		isStr := at.S == SString
		switch in.Op {
		case token.ADD:
			if isStr {
				return Concat(at, bt)
			}
			return x.wrap(s, Add(at, bt), in.Type())
		case token.SUB:
			return x.wrap(s, Sub(at, bt), in.Type())
		case token.MUL:
			return x.wrap(s, Mul(at, bt), in.Type())
		case token.QUO:
			if at.S == SReal || bt.S == SReal {
				return Div(at, bt)
			}
			x.check(s, "div", in, Neq(bt, Int(0)), "integer division by zero")
			return Div(at, bt)
		case token.REM:
			x.check(s, "div", in, Neq(bt, Int(0)), "integer modulo by zero")
			return Mod(at, bt)
		case token.EQL:
			return Eq(at, bt)
		case token.NEQ:
			return Neq(at, bt)
		case token.LSS, token.LEQ, token.GTR, token.GEQ:
			if isStr {
				return x.strCompare(in.Op, at, bt)
			}
			switch in.Op {
			case token.LSS:
				return Lt(at, bt)
			case token.LEQ:
				return Le(at, bt)
			case token.GTR:
				return Gt(at, bt)
			default:
				return Ge(at, bt)
			}
		case token.AND:
			if at.S == SBool {
				return And(at, bt)
			}
			// bit ops: common special case x & mask == 0 style is left uninterpreted
			return x.wrap(s, UF("bitand", SInt, at, bt), in.Type())
		case token.OR:
			if at.S == SBool {
				return Or(at, bt)
			}
			return x.wrap(s, UF("bitor", SInt, at, bt), in.Type())
		case token.XOR:
			return x.wrap(s, UF("bitxor", SInt, at, bt), in.Type())
		case token.SHL:
			if bt.Op == "int" && bt.I.IsInt64() && bt.I.Int64() < 62 {
				return x.wrap(s, Mul(at, Int(1<<uint(bt.I.Int64()))), in.Type())
			}
			return x.wrap(s, UF("shl", SInt, at, bt), in.Type())
		case token.SHR:
			if bt.Op == "int" && bt.I.IsInt64() && bt.I.Int64() < 62 {
				r := app("div", SInt, at, Int(1<<uint(bt.I.Int64())))
				return x.wrap(s, r, in.Type())
			}
			return x.wrap(s, UF("shr", SInt, at, bt), in.Type())
		case token.AND_NOT:
			return x.wrap(s, UF("bitandnot", SInt, at, bt), in.Type())
		}
		x.errorf("binop %s on scalars unsupported", in.Op)
		return Var(regName(in), x.E.elemSort(in.Type()))
	}
	// non-scalar comparisons
	if in.Op == token.EQL || in.Op == token.NEQ {
		eq := x.valEq(s, a, b, in)
		if in.Op == token.NEQ {
			return Not(eq)
		}
		return eq
	}
	x.errorf("binop %s on %T,%T unsupported", in.Op, a, b)
	return Var(regName(in), x.E.elemSort(in.Type()))
}

func (x *Exec) strCompare(op token.Token, a, b *Term) *Term {
	lt := app("str.<", SBool, a, b)
	switch op {
	case token.LSS:
		return lt
	case token.LEQ:
		return Or(lt, Eq(a, b))
	case token.GTR:
		return app("str.<", SBool, b, a)
	default:
		return Or(app("str.<", SBool, b, a), Eq(a, b))
	}
}

// wrap leaves arithmetic mathematical (overflow not modelled) but keeps
// unsigned results non-negative as a type fact would: no — that would hide
// underflow; instead nothing is assumed and the range is simply not enforced.
func (x *Exec) wrap(s *State, t *Term, typ types.Type) *Term {
	x.E.assumeNote("machine integers treated as mathematical integers (no overflow / wrap-around)")
	return t
}

func (x *Exec) valEq(s *State, a, b Val, in ssa.Instruction) *Term {
	switch p := a.(type) {
	case *PtrV:
		q, ok := b.(*PtrV)
		if !ok {
			break
		}
		if q.Obj == nil {
			if p.Obj == nil {
				return TTrue
			}
			return p.Nil
		}
		if p.Obj == nil {
			return q.Nil
		}
		if p.Obj == q.Obj && len(p.Path) == 0 && len(q.Path) == 0 {
			return Or(And(p.Nil, q.Nil), And(Not(p.Nil), Not(q.Nil)))
		}
		// distinct objects: equal only if both nil (non-aliasing assumption)
		x.E.assumeNote("distinct symbolic objects are assumed not to alias")
		return And(p.Nil, q.Nil)
	case *SliceV:
		if q, ok := b.(*SliceV); ok {
			if p.Obj != nil && p.Obj == q.Obj && termEq(p.Off, q.Off) && termEq(p.Len, q.Len) {
				return TTrue
			}
			if q.Obj == nil {
				if p.Obj == nil {
					return TTrue
				}
				return p.Nil
			}
			if p.Obj == nil {
				return q.Nil
			}
			// two slices (only contracts compare them): same length and same elements
			pa, ok1 := x.E.objVal(s, p.Obj).(*ArrV)
			qa, ok2 := x.E.objVal(s, q.Obj).(*ArrV)
			if ok1 && ok2 && !pa.IsStr && !qa.IsStr && pa.T != nil && qa.T != nil && pa.T.S == qa.T.S {
				x.E.nextObj++
				i := Var(fmt.Sprintf("i!eq%d", x.E.nextObj), SInt)
				return And(Eq(p.Len, q.Len), Forall([]*Term{i}, Implies(And(Le(Int(0), i), Lt(i, p.Len)),
					Eq(Select(pa.T, Add(p.Off, i)), Select(qa.T, Add(q.Off, i))))))
			}
		}
	case *MapV:
		if q, ok := b.(*MapV); ok {
			if p.Obj != nil && p.Obj == q.Obj {
				return Or(And(p.Nil, q.Nil), And(Not(p.Nil), Not(q.Nil)))
			}
			if q.Obj == nil {
				if p.Obj == nil {
					return TTrue
				}
				return p.Nil
			}
			if p.Obj == nil {
				return q.Nil
			}
		}
	case *ChanV:
		if q, ok := b.(*ChanV); ok {
			if p.Obj != nil && p.Obj == q.Obj {
				return Or(And(p.Nil, q.Nil), And(Not(p.Nil), Not(q.Nil)))
			}
			if q.Obj == nil {
				if p.Obj == nil {
					return TTrue
				}
				return p.Nil
			}
			if p.Obj == nil {
				return q.Nil
			}
			x.E.assumeNote("distinct symbolic objects are assumed not to alias")
			return And(p.Nil, q.Nil)
		}
	case *FuncV:
		if q, ok := b.(*FuncV); ok {
			if q.Fn == nil && q.Opaque == nil {
				return p.Nil
			}
			if p.Fn == nil && p.Opaque == nil {
				return q.Nil
			}
			// function values are compared in contracts only (identity of the code)
			if p.Opaque != nil && q.Opaque != nil {
				return Eq(p.Opaque, q.Opaque)
			}
			if pf, ok := p.Fn.(*ssa.Function); ok && len(p.Bind) == 0 && len(q.Bind) == 0 {
				if qf, ok := q.Fn.(*ssa.Function); ok {
					return Bool(pf == qf)
				}
			}
			return Eq(x.E.toTerm(s, p, p.Sig), x.E.toTerm(s, q, q.Sig))
		}
	case *IfaceV:
		q, ok := b.(*IfaceV)
		if !ok {
			break
		}
		if q.Dyn == nil && q.Opaque == nil { // literal nil
			return p.Nil
		}
		if p.Dyn == nil && p.Opaque == nil {
			return q.Nil
		}
		// scalar payloads of identical dynamic type compare by value
		if p.Dyn != nil && q.Dyn != nil {
			if !types.Identical(p.Dyn, q.Dyn) {
				return And(p.Nil, q.Nil)
			}
			if pt, ok := p.V.(*Term); ok {
				if qt, ok := q.V.(*Term); ok {
					return Or(And(p.Nil, q.Nil), And(Not(p.Nil), Not(q.Nil), Eq(pt, qt)))
				}
			}
		}
		pid, qid := p.Opaque, q.Opaque
		if pid != nil && qid != nil {
			return Or(And(p.Nil, q.Nil), And(Not(p.Nil), Not(q.Nil), Eq(pid, qid)))
		}
	case *StructV:
		if q, ok := b.(*StructV); ok && len(p.F) == len(q.F) {
			var cs []*Term
			for i := range p.F {
				cs = append(cs, x.valEq(s, p.F[i], q.F[i], in))
			}
			return And(cs...)
		}
	case *Term:
		if q, ok := b.(*Term); ok {
			return Eq(p, q)
		}
	case *OpaqueV:
		if q, ok := b.(*OpaqueV); ok {
			return Eq(p.T, q.T)
		}
	}
	x.E.note(fmt.Sprintf("comparison of %T and %T left uninterpreted", a, b))
	x.E.nextObj++
	return Var(fmt.Sprintf("cmp%d", x.E.nextObj), SBool)
}

func (x *Exec) unop(s *State, in *ssa.UnOp) Val {
	switch in.Op {
	case token.NOT:
		return Not(x.term(s, in.X))
	case token.SUB:
		t := x.term(s, in.X)
		if t.S == SReal {
			return Sub(RealLit("0.0"), t)
		}
		return Sub(Int(0), t)
	case token.XOR:
		return UF("bitnot", SInt, x.term(s, in.X))
	case token.MUL:
		v := x.val(s, in.X)
		p, ok := v.(*PtrV)
		if !ok {
			x.errorf("deref of %T", v)
			var facts []*Term
			return x.E.freshVal(in.Type(), regName(in), &facts)
		}
		x.nonNil(s, in, p)
		if s.dead {
			return x.E.zeroVal(in.Type(), "dead")
		}
		return x.load(s, p)
	case token.ARROW:
		cv := x.val(s, in.X)
		ct := under(in.X.Type()).(*types.Chan)
		okv := Var(regName(in)+".ok", SBool)
		v := x.chanRecv(s, cv, ct.Elem(), "§"+regName(in)+".recv", okv, in)
		if in.CommaOk {
			return &TupleV{E: []Val{v, okv}}
		}
		return v
	}
	x.errorf("unop %s unsupported", in.Op)
	return Var(regName(in), x.E.elemSort(in.Type()))
}

func (x *Exec) convert(s *State, in *ssa.Convert) Val {
	v := x.val(s, in.X)
	from, to := in.X.Type(), in.Type()
	switch {
	case isStringType(to) && isSliceOfBytes(from):
		return x.E.sliceBytes(s, v.(*SliceV))
	case isSliceOfBytes(to) && isStringType(from):
		str := v.(*Term)
		o := x.E.storeObject(fmt.Sprintf("%s%s.%s:bytes", s.top().prefix, shortFn(in.Parent()), in.Name()), types.NewArray(types.Typ[types.Byte], 0), false, "arr")
		s.heap[o.id] = &ArrV{Elem: types.Typ[types.Byte], IsStr: true, T: str}
		return &SliceV{Nil: TFalse, Obj: o, Off: Int(0), Len: StrLen(str), Cap: StrLen(str), Elem: types.Typ[types.Byte]}
	case isStringType(to) && isIntType(from):
		// string(rune): only ASCII is modelled precisely
		t := v.(*Term)
		r := Var(regName(in), SString)
		s.assume(Implies(And(Ge(t, Int(0)), Lt(t, Int(128))), Eq(r, StrFromCode(t))))
		return r
	case isStringType(to) && isStringType(from):
		return v
	case isIntType(to) && isIntType(from):
		t := v.(*Term)
		lo, hi := intRange(to)
		flo, fhi := intRange(from)
		narrowing := (lo != nil && (flo == nil || flo.I.Cmp(lo.I) < 0)) || (hi != nil && (fhi == nil || fhi.I.Cmp(hi.I) > 0))
		if narrowing && t.Op != "int" {
			x.E.assumeNote("integer conversions are value-preserving (no truncation / sign change modelled)")
		}
		return t
	case isFloatType(to) && isIntType(from):
		return ToReal(v.(*Term))
	case isFloatType(to) && isFloatType(from):
		return v
	case isIntType(to) && isFloatType(from):
		t := v.(*Term)
		fl := app("to_int", SInt, t)
		return Ite(Ge(t, RealLit("0.0")), fl, Sub(Int(0), app("to_int", SInt, Sub(RealLit("0.0"), t))))
	case isSliceOfRunes(to) || isSliceOfRunes(from):
		var facts []*Term
		x.E.note("rune conversion left uninterpreted")
		r := x.E.freshVal(to, regName(in), &facts)
		for _, f := range facts {
			s.assume(f)
		}
		return r
	}
	if _, ok := under(to).(*types.Pointer); ok {
		return v
	}
	if _, ok := under(to).(*types.Basic); ok {
		if _, ok := v.(*Term); ok {
			return v
		}
	}
	x.E.note(fmt.Sprintf("conversion %s -> %s left uninterpreted", typeName(from), typeName(to)))
	var facts []*Term
	r := x.E.freshVal(to, regName(in), &facts)
	for _, f := range facts {
		s.assume(f)
	}
	return r
}

func isSliceOfBytes(t types.Type) bool {
	sl, ok := under(t).(*types.Slice)
	return ok && isByteType(sl.Elem())
}
func isSliceOfRunes(t types.Type) bool {
	sl, ok := under(t).(*types.Slice)
	if !ok {
		return false
	}
	b, ok := under(sl.Elem()).(*types.Basic)
	return ok && b.Kind() == types.Int32
}

func (x *Exec) index(s *State, in *ssa.Index) Val {
	v := x.val(s, in.X)
	i := x.term(s, in.Index)
	switch c := v.(type) {
	case *Term: // string
		x.check(s, "bounds", in, And(Ge(i, Int(0)), Lt(i, StrLen(c))), "string index out of range")
		b := StrCode(StrAt(c, i))
		s.assume(And(Ge(b, Int(0)), Le(b, Int(255))))
		return b
	case *ArrV:
		if c.N != nil {
			x.check(s, "bounds", in, And(Ge(i, Int(0)), Lt(i, c.N)), "array index out of range")
		}
		if c.IsStr {
			b := StrCode(StrAt(c.T, i))
			s.assume(And(Ge(b, Int(0)), Le(b, Int(255))))
			return b
		}
		return x.E.fromTerm(s, Select(c.T, i), c.Elem, regName(in))
	}
	x.errorf("Index of %T", v)
	var facts []*Term
	return x.E.freshVal(in.Type(), regName(in), &facts)
}

func (x *Exec) indexAddr(s *State, in *ssa.IndexAddr) {
	v := x.val(s, in.X)
	i := x.term(s, in.Index)
	elem := in.Type().(*types.Pointer).Elem()
	switch c := v.(type) {
	case *SliceV:
		x.check(s, "bounds", in, And(Ge(i, Int(0)), Lt(i, c.Len)), "slice index out of range")
		if c.Obj == nil {
			s.dead = true
			return
		}
		x.setReg(s, in, &PtrV{Nil: TFalse, Obj: c.Obj, Path: []PathElem{{Field: -1, Index: Add(c.Off, i)}}, Elem: elem})
	case *PtrV: // pointer to array
		x.nonNil(s, in, c)
		if c.Obj == nil {
			s.dead = true
			return
		}
		if at, ok := under(c.Elem).(*types.Array); ok {
			x.check(s, "bounds", in, And(Ge(i, Int(0)), Lt(i, Int(at.Len()))), "array index out of range")
		}
		x.setReg(s, in, &PtrV{Nil: TFalse, Obj: c.Obj, Path: append(append([]PathElem(nil), c.Path...), PathElem{Field: -1, Index: i}), Elem: elem})
	default:
		x.errorf("IndexAddr of %T", v)
	}
}

func (x *Exec) lookup(s *State, in *ssa.Lookup) {
	v := x.val(s, in.X)
	switch c := v.(type) {
	case *Term: // string[i]
		i := x.term(s, in.Index)
		x.check(s, "bounds", in, And(Ge(i, Int(0)), Lt(i, StrLen(c))), "string index out of range")
		b := StrCode(StrAt(c, i))
		s.assume(And(Ge(b, Int(0)), Le(b, Int(255))))
		x.setReg(s, in, b)
	case *MapV:
		kt := x.E.toTerm(s, x.val(s, in.Index), c.K)
		var val Val
		var ok *Term
		if c.Obj == nil {
			val = x.E.zeroVal(c.V, "nilmap")
			ok = TFalse
		} else {
			ms := x.E.objVal(s, c.Obj).(*MapStore)
			present := And(Not(c.Nil), Select(ms.Dom, kt))
			raw := Select(ms.Val, kt)
			zero := x.E.zeroTerm(c.V)
			var vt *Term
			if zero.S.Eq(raw.S) {
				vt = Ite(present, raw, zero)
			} else {
				vt = raw
			}
			val = x.E.fromTerm(s, vt, c.V, fmt.Sprintf("%s[%s]", c.Obj.name, kt))
			ok = present
		}
		if in.CommaOk {
			x.setReg(s, in, &TupleV{E: []Val{val, ok}})
		} else {
			x.setReg(s, in, val)
		}
	default:
		x.errorf("Lookup on %T", v)
	}
}

func (x *Exec) next(s *State, in *ssa.Next) {
	it, _ := x.val(s, in.Iter).(*IterV)
	okv := Var(regName(in)+".ok", SBool)
	if in.IsString {
		idx := Var(regName(in)+".i", SInt)
		r := Var(regName(in)+".r", SInt)
		if it != nil {
			if st, ok := it.X.(*Term); ok {
				s.assume(Implies(okv, And(Ge(idx, Int(0)), Lt(idx, StrLen(st)))))
				// ASCII bytes decode to themselves
				b := StrCode(StrAt(st, idx))
				s.assume(Implies(And(okv, Lt(b, Int(128))), Eq(r, b)))
				s.assume(Implies(okv, Ge(r, Int(0))))
			}
		}
		x.setReg(s, in, &TupleV{E: []Val{okv, idx, r}})
		return
	}
	tup := in.Type().(*types.Tuple)
	var facts []*Term
	kv := x.E.freshVal(tup.At(1).Type(), regName(in)+".k", &facts)
	for _, f := range facts {
		s.assume(f)
	}
	var vv Val
	if it != nil {
		if mv, ok := it.X.(*MapV); ok && mv.Obj != nil {
			ms := x.E.objVal(s, mv.Obj).(*MapStore)
			kt := x.E.toTerm(s, kv, mv.K)
			s.assume(Implies(okv, And(Not(mv.Nil), Select(ms.Dom, kt))))
			// named like a lookup of that key, so that m[k] read later is the same object
			vv = x.E.fromTerm(s, Select(ms.Val, kt), mv.V, fmt.Sprintf("%s[%s]", mv.Obj.name, kt))
		}
	}
	if vv == nil {
		vv = x.E.freshVal(tup.At(2).Type(), regName(in)+".v", &facts)
	}
	x.setReg(s, in, &TupleV{E: []Val{okv, kv, vv}})
}

func (x *Exec) slice(s *State, in *ssa.Slice) {
	v := x.val(s, in.X)
	opt := func(v ssa.Value, def *Term) *Term {
		if v == nil {
			return def
		}
		return x.term(s, v)
	}
	switch c := v.(type) {
	case *Term: // string
		n := StrLen(c)
		lo := opt(in.Low, Int(0))
		hi := opt(in.High, n)
		x.check(s, "bounds", in, And(Ge(lo, Int(0)), Le(lo, hi), Le(hi, n)), "slice bounds out of range (string)")
		x.setReg(s, in, Substr(c, lo, Sub(hi, lo)))
	case *SliceV:
		lo := opt(in.Low, Int(0))
		hi := opt(in.High, c.Len)
		mx := opt(in.Max, c.Cap)
		x.check(s, "bounds", in, And(Ge(lo, Int(0)), Le(lo, hi), Le(hi, mx), Le(mx, c.Cap)), "slice bounds out of range")
		x.setReg(s, in, &SliceV{Nil: c.Nil, Obj: c.Obj, Off: Add(c.Off, lo), Len: Sub(hi, lo), Cap: Sub(mx, lo), Elem: c.Elem})
	case *PtrV: // *array
		x.nonNil(s, in, c)
		at, ok := under(c.Elem).(*types.Array)
		if !ok || c.Obj == nil {
			x.errorf("Slice of pointer to %s", typeName(c.Elem))
			return
		}
		n := Int(at.Len())
		lo := opt(in.Low, Int(0))
		hi := opt(in.High, n)
		mx := opt(in.Max, n)
		x.check(s, "bounds", in, And(Ge(lo, Int(0)), Le(lo, hi), Le(hi, mx), Le(mx, n)), "slice bounds out of range (array)")
		obj := c.Obj
		if len(c.Path) > 0 {
			// array embedded in a larger object: copy out (aliasing lost)
			x.E.note("slice of embedded array copied (aliasing not modelled)")
			cur := x.load(s, c)
			obj = x.E.newObject(regName(in)+":arrcopy", c.Elem)
			s.heap[obj.id] = cur
		}
		x.setReg(s, in, &SliceV{Nil: TFalse, Obj: obj, Off: lo, Len: Sub(hi, lo), Cap: Sub(mx, lo), Elem: at.Elem()})
	default:
		x.errorf("Slice of %T", v)
	}
}

func (x *Exec) typeAssert(s *State, in *ssa.TypeAssert) {
	v := x.val(s, in.X)
	iv, _ := v.(*IfaceV)
	if iv != nil && iv.Dyn != nil {
		if _, isIface := under(in.AssertedType).(*types.Interface); isIface {
			// interface-to-interface: succeeds iff non-nil and implements
			impl := types.Implements(iv.Dyn, under(in.AssertedType).(*types.Interface))
			if in.CommaOk {
				x.setReg(s, in, &TupleV{E: []Val{iv, And(Not(iv.Nil), Bool(impl))}})
			} else {
				x.check(s, "typeassert", in, And(Not(iv.Nil), Bool(impl)), "interface conversion fails")
				x.setReg(s, in, iv)
			}
			return
		}
		same := types.Identical(iv.Dyn, in.AssertedType)
		if in.CommaOk {
			if same {
				x.setReg(s, in, &TupleV{E: []Val{iv.V, Not(iv.Nil)}})
			} else {
				x.setReg(s, in, &TupleV{E: []Val{x.E.zeroVal(in.AssertedType, "ta"), TFalse}})
			}
			return
		}
		x.check(s, "typeassert", in, And(Not(iv.Nil), Bool(same)), "type assertion fails")
		if same {
			x.setReg(s, in, iv.V)
		}
		return
	}
	var facts []*Term
	r := x.E.freshVal(in.AssertedType, regName(in), &facts)
	for _, f := range facts {
		s.assume(f)
	}
	if in.CommaOk {
		x.setReg(s, in, &TupleV{E: []Val{r, Var(regName(in)+".ok", SBool)}})
		return
	}
	x.check(s, "typeassert", in, TFalse, "type assertion on a value of unknown dynamic type")
	x.setReg(s, in, r)
}

func isContextType(t types.Type) bool {
	return qualifiedTypeName(t) == "context.Context"
}

// carriesLabel recognises the predicate `carries(elem, label)`.
func carriesLabel(ci *ChanInvDecl) (string, bool) {
	call, ok := ci.Pred.Expr.(*ast.CallExpr)
	if !ok || len(call.Args) != 2 {
		return "", false
	}
	id, ok := call.Fun.(*ast.Ident)
	if !ok || id.Name != "carries" {
		return "", false
	}
	if l, ok := call.Args[1].(*ast.Ident); ok {
		return l.Name, true
	}
	if l, ok := call.Args[1].(*ast.BasicLit); ok {
		return strings.Trim(l.Value, "\"`"), true
	}
	return "", false
}

func (x *Exec) isPkgInit() bool {
	return x.fn != nil && x.fn.Synthetic == "package initializer"
}

// initBinds gives every bind name of the contract an unconstrained value of
// the right type, so that clauses can be evaluated on paths where the named
// call never happens (there the name stands for nothing in particular).
func (x *Exec) initBinds(s *State) {
	if x.c == nil || len(x.c.Binds) == 0 {
		return
	}
	for _, b := range x.c.Binds {
		var typ types.Type
		// the call may sit in the function itself or in a contract-less helper
		// that is taken by its body
		var look func(fn *ssa.Function, depth int)
		look = func(fn *ssa.Function, depth int) {
			for _, blk := range fn.Blocks {
				for _, instr := range blk.Instrs {
					call, ok := instr.(*ssa.Call)
					if !ok || typ != nil {
						continue
					}
					cc := call.Common()
					name := ""
					if cc.IsInvoke() {
						name = typeName(cc.Value.Type()) + "." + cc.Method.Name()
					} else if callee := cc.StaticCallee(); callee != nil {
						name = callee.String()
						if depth < 3 && isRepoFunc(callee) && x.P.contractFor(callee) == nil && !strings.Contains(name, b.Callee) && smallStraight(callee) && !hasBackEdge(callee) {
							look(callee, depth+1)
						}
					} else if _, isB := cc.Value.(*ssa.Builtin); !isB {
						name = "dynamic:" + typeName(cc.Value.Type())
					}
					if typ == nil && name != "" && strings.Contains(name, b.Callee) {
						typ = call.Type()
					}
				}
			}
		}
		look(x.fn, 0)
		if typ == nil {
			continue
		}
		var facts []*Term
		v := x.E.freshVal(typ, "bind."+b.Name+".unset", &facts)
		for _, f := range facts {
			s.assume(f)
		}
		if s.binds == nil {
			s.binds = map[string]Val{}
		}
		s.binds[b.Name] = v
		if tv, ok := v.(*TupleV); ok {
			for i, ev := range tv.E {
				s.binds[fmt.Sprintf("%s%d", b.Name, i)] = ev
			}
		}
	}
}
