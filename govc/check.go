package main

// Property checks: run the executor on the functions a property depends on,
// discharge obligations, compare with known findings, write evidence.

import (
	"bytes"
	"context"
	"encoding/json"
	"fmt"
	"go/token"
	"go/types"
	"os"
	"os/exec"
	"path/filepath"
	"runtime/debug"
	"sort"
	"strings"
	"sync"
	"time"

	"golang.org/x/tools/go/ssa"
)

type PropSpec struct {
	ID                 string              `json:"id"`
	Title              string              `json:"title"`
	Functions          []string            `json:"functions"`           // "pkg::key" (pkg relative to internal/)
	Roots              []string            `json:"roots"`               // sweep roots: everything reachable is verified for safety
	Exclude            []string            `json:"exclude"`             // reachable functions left out, with reason in Notes
	ExcludePkgs        []string            `json:"exclude_pkgs"`        // packages whose functions are trusted (not swept), with the reason in notes
	Kinds              []string            `json:"kinds"`               // obligation kinds claimed (empty = all)
	SweepKinds         []string            `json:"sweep_kinds"`         // kinds claimed for functions reached only by the sweep
	ExcludeObligations []string            `json:"exclude_obligations"` // obligations of the listed functions that belong to another property
	OnlyObligations    map[string][]string `json:"only_obligations"`    // function-name substring -> the only obligations (substrings) of it this property claims
	Lemmas             []string            `json:"lemmas"`
	Implements         []string            `json:"implements"`         // interface contracts ("pkg::Iface.Method") whose implementations this property verifies against them
	FsWriterPkgs       []string            `json:"fs_writer_packages"` // packages (relative to internal/) whose fs-writers-only clause this property claims
	Trusted            []string            `json:"trusted_base"`
	Uncovered          []string            `json:"uncovered"`
	Notes              []string            `json:"notes"`
	Bounded            []string            `json:"bounded"`
	BoundedChecks      []BoundedCheck      `json:"bounded_checks"` // stand-ins for functions outside the verifier's reach: never counted as proved
	Level              string              `json:"level"`
}

// BoundedCheck runs the real function against its intended contract on every
// input up to a stated bound (an in-package Go test injected with -overlay).
type BoundedCheck struct {
	Name      string `json:"name"`  // obligation-like name: pkg.Func#bounded:label
	Pkg       string `json:"pkg"`   // package directory relative to internal/
	File      string `json:"file"`  // test source under /verif/bounded/
	Bound     string `json:"bound"` // the bound, in words
	StandsFor string `json:"stands_for"`
}

type KnownFinding struct {
	Property   string `json:"property"`
	Obligation string `json:"obligation"`
	What       string `json:"what"`
	Witness    string `json:"witness"`
	Status     string `json:"status"` // known | fixed
	// Match "clause": the finding is the failure of the named contract clause in
	// the named function wherever the call it is checked at sits (the "@site"
	// part of the obligation name — the source text of the call — is ignored),
	// so that moving the call into a helper does not turn a recorded finding
	// into a new alarm. Default: the full obligation name must match.
	Match  string `json:"match,omitempty"`
	Commit string `json:"commit,omitempty"`
	Replay string `json:"replay,omitempty"`
}

type ObligResult struct {
	Name    string            `json:"name"`
	Kind    string            `json:"kind"`
	Paths   int               `json:"paths"`
	Result  string            `json:"result"` // discharged | failed | undecided | known-finding
	Backend string            `json:"backend"`
	Ms      int64             `json:"ms"`
	Pos     string            `json:"pos,omitempty"`
	Note    string            `json:"note,omitempty"`
	Model   map[string]string `json:"model,omitempty"`
	query   string
	raw     string
}

type group struct {
	name string
	kind string
	obs  []*Oblig
}

// outDir: where evidence and replays are written (selftests redirect it).
func outDir() string {
	if d := os.Getenv("VERIF_OUT"); d != "" {
		return d
	}
	return verifDir()
}

func verifDir() string {
	if d := os.Getenv("VERIF_DIR"); d != "" {
		return d
	}
	return "/verif"
}

func repoDir() string {
	if d := os.Getenv("VERIF_REPO"); d != "" {
		return d
	}
	return "/repo"
}

func loadProp(id string) (*PropSpec, error) {
	b, err := os.ReadFile(filepath.Join(verifDir(), "props", id+".json"))
	if err != nil {
		return nil, err
	}
	var p PropSpec
	if err := json.Unmarshal(b, &p); err != nil {
		return nil, fmt.Errorf("props/%s.json: %v", id, err)
	}
	return &p, nil
}

func loadKnown() ([]KnownFinding, error) {
	b, err := os.ReadFile(filepath.Join(verifDir(), "known_findings.json"))
	if err != nil {
		if os.IsNotExist(err) {
			return nil, nil
		}
		return nil, err
	}
	var k struct {
		Findings []KnownFinding `json:"findings"`
	}
	if err := json.Unmarshal(b, &k); err != nil {
		return nil, err
	}
	return k.Findings, nil
}

func resolveFn(P *Program, ref string) (*ssa.Function, error) {
	parts := strings.SplitN(ref, "::", 2)
	if len(parts) != 2 {
		return nil, fmt.Errorf("bad function reference %q", ref)
	}
	for _, prefix := range []string{modPath + "/internal/", modPath + "/", ""} {
		if fn := P.lookupFunc(prefix+parts[0], parts[1]); fn != nil {
			return fn, nil
		}
	}
	return nil, fmt.Errorf("function %q not found (similar: %s)", ref, strings.Join(P.similar(modPath+"/internal/"+parts[0], parts[1]), ", "))
}

// reachable computes the repository functions reachable from roots through
// static calls, closures, go/defer and interface calls resolved by method name
// over repository types.
func reachable(P *Program, roots []*ssa.Function, exclude map[string]bool) []*ssa.Function {
	seen := map[*ssa.Function]bool{}
	var order []*ssa.Function
	var visit func(fn *ssa.Function)
	visit = func(fn *ssa.Function) {
		if fn == nil || seen[fn] || !isRepoFunc(fn) || fn.Blocks == nil {
			return
		}
		if exclude[fnRef(fn)] || exclude["pkg:"+strings.SplitN(fnRef(fn), "::", 2)[0]] {
			return
		}
		seen[fn] = true
		order = append(order, fn)
		for _, b := range fn.Blocks {
			for _, instr := range b.Instrs {
				var cc *ssa.CallCommon
				switch in := instr.(type) {
				case *ssa.Call:
					cc = in.Common()
				case *ssa.Go:
					cc = &in.Call
				case *ssa.Defer:
					cc = &in.Call
				case *ssa.MakeClosure:
					visit(in.Fn.(*ssa.Function))
				}
				if cc == nil {
					continue
				}
				if cc.IsInvoke() {
					// repository methods of types implementing the interface
					it, _ := under(cc.Value.Type()).(*types.Interface)
					for _, cand := range P.Funcs {
						recv := cand.Signature.Recv()
						if recv == nil || cand.Name() != cc.Method.Name() || !isRepoFunc(cand) || cand.Synthetic != "" {
							continue
						}
						if it != nil && !types.Implements(recv.Type(), it) && !types.Implements(types.NewPointer(recv.Type()), it) {
							continue
						}
						visit(cand)
					}
					continue
				}
				if callee := cc.StaticCallee(); callee != nil {
					visit(callee)
				}
				// function-typed arguments that are repository functions
				for _, a := range cc.Args {
					if f, ok := a.(*ssa.Function); ok {
						visit(f)
					}
				}
			}
			for _, instr := range b.Instrs {
				// function values stored in fields (callbacks)
				if st, ok := instr.(*ssa.Store); ok {
					switch v := st.Val.(type) {
					case *ssa.Function:
						visit(v)
					case *ssa.MakeClosure:
						visit(v.Fn.(*ssa.Function))
					}
				}
			}
		}
	}
	for _, r := range roots {
		visit(r)
	}
	return order
}

func fnRef(fn *ssa.Function) string {
	p := fn
	for p.Parent() != nil {
		p = p.Parent()
	}
	pk := ""
	if p.Pkg != nil {
		pk = shortPkg(p.Pkg.Pkg.Path())
	}
	return pk + "::" + funcKey(fn)
}

type fnRun struct {
	fn          *ssa.Function
	swept       bool   // reached only via sweep
	impl        string // non-empty: the run checks the method against this interface contract
	obligs      []*Oblig
	errs        []string
	paths       int
	ms          int64
	rets        int
	unmod       map[string]int
	assumed     map[string]bool
	trusted     map[string]bool
	calls       map[string]bool
	hasContract bool
}

func runFunction(P *Program, fn *ssa.Function) *fnRun {
	r, panicked := runFunctionOnce(P, fn)
	if panicked {
		// symbolic execution is deterministic: a panic of the engine that does
		// not repeat came from the environment (seen once under heavy load)
		if r2, again := runFunctionOnce(P, fn); !again {
			return r2
		}
	}
	return r
}

// runFunctionAgainstIface verifies a method against the contract of the
// interface method it implements: the interface's postconditions and frame are
// added to (the frame: put in place of) the method's own contract; arg0, arg1,
// … in the interface's clauses are the method's receiver and parameters.
func runFunctionAgainstIface(P *Program, fn *ssa.Function, ic *Contract, key string) *fnRun {
	start := time.Now()
	x := newExec(P, fn)
	d := &Contract{Pkg: ic.Pkg, Key: funcKey(fn), Loops: map[int]*LoopSpec{}}
	if x.c != nil {
		cp := *x.c
		d = &cp
		d.Ensures = nil
		d.OnSends, d.AtCalls, d.CallsOnly, d.CallersOnly, d.NeverCalls = nil, nil, nil, nil, nil
	}
	for _, e := range ic.Ensures {
		ce := *e
		ce.Label = "implements:" + key + "/" + e.Label
		d.Ensures = append(d.Ensures, &ce)
	}
	if ic.HasAssigns {
		d.HasAssigns = true
		d.Assigns = ic.Assigns
	}
	x.c = d
	x.argLets = true
	r := &fnRun{fn: fn, hasContract: true, impl: key}
	func() {
		defer func() {
			if e := recover(); e != nil {
				x.errorf("engine panic in %s (against %s): %v", fnDisplay(fn), key, e)
			}
		}()
		x.Run()
	}()
	r.obligs = x.obligs
	for _, e := range x.errs {
		// clauses of the own contract that were dropped for this run cannot be "unmatched"
		if strings.Contains(e, "never applied") {
			continue
		}
		r.errs = append(r.errs, "against "+key+": "+e)
	}
	r.paths = x.nPaths + 1
	r.rets = x.retCount
	r.ms = time.Since(start).Milliseconds()
	r.unmod = x.E.unmodelled
	r.assumed = x.E.assumptionsUsed
	r.trusted = x.trustedUsed
	r.calls = x.callsSeen
	return r
}

func runFunctionOnce(P *Program, fn *ssa.Function) (*fnRun, bool) {
	start := time.Now()
	x := newExec(P, fn)
	r := &fnRun{fn: fn, hasContract: x.c != nil}
	panicked := false
	func() {
		defer func() {
			if e := recover(); e != nil {
				panicked = true
				// keep the innermost engine frames: an engine panic must be diagnosable from the report
				var where []string
				for _, l := range strings.Split(string(debug.Stack()), "\n") {
					if strings.Contains(l, "/govc/") && !strings.Contains(l, "check.go") {
						where = append(where, strings.TrimSpace(l))
					}
					if len(where) >= 6 {
						break
					}
				}
				x.errorf("engine panic in %s: %v [%s]", fnDisplay(fn), e, strings.Join(where, " <- "))
				if os.Getenv("GOVC_DEBUG") != "" {
					panic(e)
				}
			}
		}()
		if x.c != nil && (x.c.Trusted || x.c.Skip) {
			return
		}
		x.Run()
	}()
	r.obligs = x.obligs
	r.errs = x.errs
	r.paths = x.nPaths + 1
	r.rets = x.retCount
	r.ms = time.Since(start).Milliseconds()
	r.unmod = x.E.unmodelled
	r.assumed = x.E.assumptionsUsed
	r.trusted = x.trustedUsed
	r.calls = x.callsSeen
	return r, panicked
}

func kindClaimed(kinds []string, k string) bool {
	if len(kinds) == 0 {
		return true
	}
	for _, c := range kinds {
		if c == k {
			return true
		}
	}
	return false
}

// coverKinds: obligation kinds that come from contract clauses and are
// expected to be reachable. (A panic / bounds / nil obligation is often proved
// exactly because no feasible path reaches it; a postcondition, a loop
// invariant or an assertion at a call or send that no feasible path reaches
// is proved by nothing.)
var coverKinds = map[string]bool{"assert": true, "post": true, "inv-pres": true}

// groupReachable asks whether the hypotheses of at least one path of the group are
// satisfiable: "sat", "unsat" or "unknown".
func groupReachable(g *group, timeoutS int) string {
	var disj []*Term
	for _, o := range g.obs {
		disj = append(disj, And(append([]*Term(nil), o.Hyps...)...))
	}
	unknown := false
	const chunk = 20
	for i := 0; i < len(disj); i += chunk {
		j := i + chunk
		if j > len(disj) {
			j = len(disj)
		}
		q := buildQuery([]*Term{Or(disj[i:j]...)}, nil)
		if d := os.Getenv("GOVC_DUMP_COVER"); d != "" && strings.Contains(g.name, d) {
			os.WriteFile(fmt.Sprintf("/tmp/govc-cover-%d.smt2", i), []byte(q), 0o644)
		}
		r := SolveVariants(queryVariants(q, []*Term{Or(disj[i:j]...)}, nil), timeoutS, false)
		switch r.Status {
		case "sat":
			return "sat"
		case "unsat":
		default:
			unknown = true
		}
	}
	if unknown {
		return "unknown"
	}
	return "unsat"
}

// discharge decides one obligation group.
func discharge(g *group, timeoutS int, all bool) *ObligResult {
	res := &ObligResult{Name: g.name, Kind: g.kind, Paths: len(g.obs)}
	if len(g.obs) > 0 {
		res.Pos = g.obs[0].Pos
		res.Note = g.obs[0].Note
	}
	var disj []*Term
	for _, o := range g.obs {
		if o.Goal.IsTrue() {
			continue
		}
		disj = append(disj, And(append(append([]*Term(nil), o.Hyps...), Not(o.Goal))...))
	}
	if len(disj) == 0 {
		res.Result = "discharged"
		res.Backend = "syntactic"
		return res
	}
	// cap the size of one query: split large disjunctions into chunks
	const chunk = 40
	var want []*Term
	if len(g.obs) > 0 {
		want = g.obs[0].Want
	}
	// obligations with many paths and string reasoning are decided path by
	// path from the start: the disjunction over all paths is what makes such
	// queries slow, and slow queries are the ones that flip under load
	if len(disj) > 3 && disjHasStrings(disj) {
		sub := dischargeEach(disj, want, timeoutS, all, res)
		switch sub {
		case "unsat":
			res.Result = "discharged"
			return res
		case "sat":
			return res
		}
		res.Result = "undecided"
		res.Backend = "per-path"
		return res
	}
	for i := 0; i < len(disj); i += chunk {
		j := i + chunk
		if j > len(disj) {
			j = len(disj)
		}
		q := buildQuery([]*Term{Or(disj[i:j]...)}, want)
		r := SolveVariants(queryVariants(q, []*Term{Or(disj[i:j]...)}, want), timeoutS, all)
		res.Ms += r.Ms
		res.Backend = r.Backend
		res.query = q
		res.raw = r.Raw
		switch r.Status {
		case "unsat":
			continue
		case "sat":
			res.Result = "failed"
			res.Model = r.Model
			return res
		default:
			if j-i > 1 && timeoutS > 4 {
				// the disjunction over paths was too much for one query:
				// decide every path on its own
				if sub := dischargeEach(disj[i:j], want, timeoutS, all, res); sub == "unsat" {
					continue
				} else if sub == "sat" {
					return res
				}
			}
			res.Result = "undecided"
			res.Backend = fmt.Sprintf("%v", r.All)
			return res
		}
	}
	res.Result = "discharged"
	return res
}

// queryVariants returns the plain query and, where strings occur only under
// equality, arrays and uninterpreted functions below quantifiers, the same
// query with String replaced by an uninterpreted sort (abstract.go).
func queryVariants(q string, asserts []*Term, want []*Term) []string {
	if os.Getenv("GOVC_NO_ABSTRACT") != "" {
		return []string{q}
	}
	if as, w, ok := abstractStrings(asserts, want); ok {
		return []string{q, buildQuery(as, w)}
	}
	return []string{q}
}

func disjHasStrings(disj []*Term) bool {
	ds := newDeclSet()
	for _, d := range disj {
		ds.walk(d, nil)
		if ds.strings {
			return true
		}
	}
	return false
}

// dischargeEach decides the paths of one obligation one query per path.
func dischargeEach(disj []*Term, want []*Term, timeoutS int, all bool, res *ObligResult) string {
	type one struct {
		q string
		r SolverResult
	}
	out := make([]one, len(disj))
	var wg sync.WaitGroup
	for i := range disj {
		wg.Add(1)
		go func(i int) {
			defer wg.Done()
			q := buildQuery([]*Term{disj[i]}, want)
			out[i] = one{q, SolveVariants(queryVariants(q, []*Term{disj[i]}, want), timeoutS, all)}
			if os.Getenv("GOVC_DUMP_PATHS") != "" && strings.Contains(res.Name, os.Getenv("GOVC_DUMP_PATHS")) {
				os.WriteFile(fmt.Sprintf("/tmp/govc-allpath-%d.smt2", i), []byte(q), 0o644)
				fmt.Fprintf(os.Stderr, "path %d: %s %s %dms\n", i, out[i].r.Status, out[i].r.Backend, out[i].r.Ms)
			}
		}(i)
	}
	wg.Wait()
	status := "unsat"
	var maxMs int64
	for i, o := range out {
		if o.r.Ms > maxMs {
			maxMs = o.r.Ms
		}
		switch o.r.Status {
		case "unsat":
			res.Backend = o.r.Backend + " (per path)"
		case "sat":
			res.Ms += maxMs
			res.Result = "failed"
			res.Model = o.r.Model
			res.Backend = o.r.Backend
			res.query = o.q
			res.raw = o.r.Raw
			return "sat"
		default:
			status = "unknown"
			res.query = o.q
			res.raw = o.r.Raw
			if os.Getenv("GOVC_DEBUG") != "" {
				fmt.Fprintf(os.Stderr, "per-path %d: %v\n", i, o.r.All)
				os.WriteFile(fmt.Sprintf("/tmp/govc-path-%d.smt2", i), []byte(o.q), 0o644)
			}
		}
	}
	res.Ms += maxMs
	return status
}

type Evidence struct {
	PropertyID  string                 `json:"property_id"`
	Tier        string                 `json:"tier"`
	Seed        int64                  `json:"seed"`
	Level       string                 `json:"level"`
	Coverage    map[string]interface{} `json:"coverage"`
	Assumptions []string               `json:"assumptions"`
	WallS       float64                `json:"wall_s"`
	Violations  int                    `json:"violations"`
}

func checkProperty(id, tier string) int {
	start := time.Now()
	prop, err := loadProp(id)
	if err != nil {
		fmt.Fprintln(os.Stderr, "error:", err)
		return 2
	}
	known, err := loadKnown()
	if err != nil {
		fmt.Fprintln(os.Stderr, "error:", err)
		return 2
	}
	P, err := loadProgram(repoDir())
	if err != nil {
		fmt.Fprintln(os.Stderr, "error loading /repo:", err)
		// a tree that does not load cannot be verified
		fmt.Printf("VIOLATION property=%s replay=%s no-failing-input-found\n", id, writeReplay(id, "load-error", map[string]interface{}{"error": err.Error()}))
		return 1
	}
	loadMs := time.Since(start).Milliseconds()
	timeoutS := 20
	all := false
	if tier == "thorough" {
		timeoutS = 60
		all = true
	}

	// functions
	var runs []*fnRun
	seenFn := map[*ssa.Function]bool{}
	var fns []*ssa.Function
	swept := map[*ssa.Function]bool{}
	for _, ref := range prop.Functions {
		fn, err := resolveFn(P, ref)
		if err != nil {
			fmt.Fprintln(os.Stderr, "error:", err)
			fmt.Printf("VIOLATION property=%s replay=%s no-failing-input-found\n", id, writeReplay(id, "missing-function", map[string]interface{}{"error": err.Error(), "note": "a function under contract no longer exists; its obligations cannot be generated"}))
			return 1
		}
		if !seenFn[fn] {
			seenFn[fn] = true
			fns = append(fns, fn)
		}
	}
	if len(prop.Roots) > 0 {
		var roots []*ssa.Function
		for _, ref := range prop.Roots {
			fn, err := resolveFn(P, ref)
			if err != nil {
				fmt.Fprintln(os.Stderr, "error:", err)
				fmt.Printf("VIOLATION property=%s replay=%s no-failing-input-found\n", id, writeReplay(id, "missing-function", map[string]interface{}{"error": err.Error()}))
				return 1
			}
			roots = append(roots, fn)
		}
		ex := map[string]bool{}
		for _, e := range prop.Exclude {
			ex[strings.SplitN(e, " ", 2)[0]] = true
		}
		for _, e := range prop.ExcludePkgs {
			ex["pkg:"+strings.SplitN(e, " ", 2)[0]] = true
		}
		for _, fn := range reachable(P, roots, ex) {
			if !seenFn[fn] {
				seenFn[fn] = true
				fns = append(fns, fn)
				swept[fn] = true
			}
		}
	}
	// Swept helpers that every caller takes by its body (no contract, small,
	// loop-free, only ever called statically from functions verified in this
	// run) are verified inside those callers, with the arguments the callers
	// really pass, and not once more on their own with arbitrary arguments:
	// a helper extracted from a verified function would otherwise need a
	// contract of its own before the check is quiet again.
	var viaCallers []string
	if len(swept) > 0 {
		inSet := map[*ssa.Function]bool{}
		for _, fn := range fns {
			inSet[fn] = true
		}
		callers := map[*ssa.Function][]*ssa.Function{} // callee -> functions with a plain static call of it
		escapes := map[*ssa.Function]bool{}            // referenced other than as the callee of a plain call
		invoked := map[string]bool{}                   // method names called through interfaces
		for _, caller := range P.Funcs {
			var all []*ssa.Function
			var collect func(f *ssa.Function)
			collect = func(f *ssa.Function) {
				all = append(all, f)
				for _, af := range f.AnonFuncs {
					collect(af)
				}
			}
			if caller.Parent() == nil {
				collect(caller)
			}
			for _, f := range all {
				for _, b := range f.Blocks {
					for _, instr := range b.Instrs {
						if _, isDbg := instr.(*ssa.DebugRef); isDbg {
							continue
						}
						var ops []*ssa.Value
						ops = instr.Operands(ops)
						if call, ok := instr.(*ssa.Call); ok {
							if call.Common().IsInvoke() {
								invoked[call.Common().Method.Name()] = true
							} else if callee := call.Common().StaticCallee(); callee != nil {
								callers[callee] = append(callers[callee], f)
								// arguments may still mention functions as values
								for _, a := range call.Common().Args {
									if fv, ok := a.(*ssa.Function); ok {
										escapes[fv] = true
									}
								}
								continue
							}
						}
						if g, ok := instr.(*ssa.Go); ok && g.Call.IsInvoke() {
							invoked[g.Call.Method.Name()] = true
						}
						if d, ok := instr.(*ssa.Defer); ok && d.Call.IsInvoke() {
							invoked[d.Call.Method.Name()] = true
						}
						for _, op := range ops {
							if op != nil {
								if fv, ok := (*op).(*ssa.Function); ok {
									if os.Getenv("GOVC_DEBUG_INLINE") != "" && strings.Contains(fv.Name(), os.Getenv("GOVC_DEBUG_INLINE")) {
										fmt.Fprintf(os.Stderr, "escape of %s in %s: %T %v\n", fv.Name(), fnDisplay(f), instr, instr)
									}
									escapes[fv] = true
								}
							}
						}
					}
				}
			}
		}
		covered := map[*ssa.Function]int{} // 0 unknown, >0 nesting level, -1 no
		var level func(fn *ssa.Function, depth int) int
		level = func(fn *ssa.Function, depth int) int {
			if v, ok := covered[fn]; ok {
				return v
			}
			covered[fn] = -1
			if os.Getenv("GOVC_DEBUG_INLINE") != "" && strings.Contains(fn.Name(), os.Getenv("GOVC_DEBUG_INLINE")) {
				fmt.Fprintf(os.Stderr, "level %s: swept=%v parent=%v contract=%v escapes=%v small=%v backedge=%v callers=%d\n", fnDisplay(fn), swept[fn], fn.Parent() != nil, P.contractFor(fn) != nil, escapes[fn], smallStraight(fn), hasBackEdge(fn), len(callers[fn]))
			}
			if depth > 3 || !swept[fn] || fn.Parent() != nil || P.contractFor(fn) != nil || escapes[fn] || !smallStraight(fn) || hasBackEdge(fn) {
				return -1
			}
			if fn.Signature.Recv() != nil && invoked[fn.Name()] {
				return -1
			}
			if len(callers[fn]) == 0 {
				return -1
			}
			lv := 1
			for _, c := range callers[fn] {
				if c.Synthetic != "" && len(callers[c]) == 0 && !escapes[c] {
					// a promoted-method wrapper nobody calls
					continue
				}
				if c == fn || !inSet[c] {
					return -1
				}
				root := c
				for root.Parent() != nil {
					root = root.Parent()
				}
				if l := level(c, depth+1); l > 0 {
					if l+1 > lv {
						lv = l + 1
					}
				}
			}
			if lv > 2 {
				return -1
			}
			covered[fn] = lv
			return lv
		}
		var kept []*ssa.Function
		for _, fn := range fns {
			if swept[fn] && level(fn, 0) > 0 {
				viaCallers = append(viaCallers, fnDisplay(fn))
				continue
			}
			kept = append(kept, fn)
		}
		fns = kept
		sort.Strings(viaCallers)
	}
	// run executors in parallel
	runs = make([]*fnRun, len(fns))
	var wg sync.WaitGroup
	sem := make(chan struct{}, 12)
	for i, fn := range fns {
		wg.Add(1)
		go func(i int, fn *ssa.Function) {
			defer wg.Done()
			sem <- struct{}{}
			defer func() { <-sem }()
			r := runFunction(P, fn)
			r.swept = swept[fn]
			runs[i] = r
		}(i, fn)
	}
	wg.Wait()

	// interface contracts this property claims: every repository method that
	// implements the interface method is verified against the interface's
	// postconditions and frame (in addition to its own contract, whose loop
	// invariants and preconditions it keeps)
	for _, ref := range prop.Implements {
		parts := strings.SplitN(ref, "::", 2)
		if len(parts) != 2 || !strings.Contains(parts[1], ".") {
			fmt.Fprintln(os.Stderr, "error: bad implements entry", ref)
			return 2
		}
		pkgPath := modPath + "/internal/" + parts[0]
		if parts[0] == "internal" {
			pkgPath = modPath + "/internal"
		}
		ic := P.ifaceContract(pkgPath, parts[1])
		dot := strings.Index(parts[1], ".")
		ifaceName, method := parts[1][:dot], parts[1][dot+1:]
		var it *types.Interface
		if sp := P.SSA[pkgPath]; sp != nil {
			if obj := sp.Pkg.Scope().Lookup(ifaceName); obj != nil {
				it, _ = obj.Type().Underlying().(*types.Interface)
			}
		}
		if ic == nil || it == nil {
			fmt.Printf("VIOLATION property=%s replay=%s no-failing-input-found\n", id, writeReplay(id, "missing-interface-contract", map[string]interface{}{"error": "no interface contract " + ref}))
			return 1
		}
		var impls []*ssa.Function
		for _, cand := range P.Funcs {
			recv := cand.Signature.Recv()
			if recv == nil || cand.Name() != method || !isRepoFunc(cand) || cand.Synthetic != "" || cand.Blocks == nil {
				continue
			}
			if types.Implements(recv.Type(), it) || types.Implements(types.NewPointer(recv.Type()), it) {
				impls = append(impls, cand)
			}
		}
		sort.Slice(impls, func(i, j int) bool { return fnDisplay(impls[i]) < fnDisplay(impls[j]) })
		for _, fn := range impls {
			r := runFunctionAgainstIface(P, fn, ic, parts[1])
			runs = append(runs, r)
		}
	}

	// group obligations
	groups := map[string]*group{}
	var order []string
	var engineErrs []string
	assumptions := map[string]bool{}
	unmodelled := map[string]int{}
	trusted := map[string]bool{}
	var fnNames []string
	totalPaths := 0
	otherKnown := newKnownIndex()
	for _, k := range known {
		if k.Property != id && k.Status == "known" {
			otherKnown.add(k)
		}
	}
	for _, k := range known {
		if k.Property == id && k.Status == "known" {
			otherKnown.remove(k)
		}
	}
	for _, r := range runs {
		fnNames = append(fnNames, fnDisplay(r.fn))
		totalPaths += r.paths
		for _, e := range r.errs {
			engineErrs = append(engineErrs, fnDisplay(r.fn)+": "+e)
		}
		for a := range r.assumed {
			assumptions[a] = true
		}
		for u, n := range r.unmod {
			unmodelled[u] += n
		}
		for t := range r.trusted {
			trusted[t] = true
		}
		kinds := prop.Kinds
		if r.swept && len(prop.SweepKinds) > 0 {
			kinds = prop.SweepKinds
		}
		if r.impl != "" {
			for _, o := range r.obligs {
				isPost := o.Kind == "post" && strings.Contains(o.Name, "#post:implements:")
				if !isPost && o.Kind != "frame" {
					continue
				}
				if isPost {
					o.Name = strings.Replace(o.Name, "#post:implements:", "#implements:", 1)
				} else {
					o.Name = strings.Replace(o.Name, "#frame:", "#implements:"+r.impl+"/frame:", 1)
				}
				g := groups[o.Name]
				if g == nil {
					g = &group{name: o.Name, kind: o.Kind}
					groups[o.Name] = g
					order = append(order, o.Name)
				}
				g.obs = append(g.obs, o)
			}
			continue
		}
		for _, o := range r.obligs {
			if !kindClaimed(kinds, o.Kind) {
				continue
			}
			skip := false
			if otherKnown.has(o.Name) {
				// recorded as a known finding of another property: that property's
				// check reports it, this one does not claim the obligation
				skip = true
			}
			for _, ex := range prop.ExcludeObligations {
				if strings.Contains(o.Name, ex) {
					skip = true
				}
			}
			for fnSub, keep := range prop.OnlyObligations {
				if strings.Contains(o.Name, fnSub) {
					hit := false
					for _, kp := range keep {
						if strings.Contains(o.Name, kp) {
							hit = true
						}
					}
					if !hit {
						skip = true
					}
				}
			}
			if skip {
				continue
			}
			g := groups[o.Name]
			if g == nil {
				g = &group{name: o.Name, kind: o.Kind}
				groups[o.Name] = g
				order = append(order, o.Name)
			}
			g.obs = append(g.obs, o)
		}
	}
	sort.Strings(order)

	// vacuity: entry hypotheses of each contracted function must be satisfiable
	type cover struct {
		name string
		ok   bool
		raw  string
	}
	var covers []cover
	var cmu sync.Mutex
	var cwg sync.WaitGroup
	for _, r := range runs {
		if !r.hasContract {
			continue
		}
		c := P.contractFor(r.fn)
		if c == nil || c.Trusted || c.Skip || len(c.Requires) == 0 {
			continue
		}
		cwg.Add(1)
		go func(r *fnRun) {
			defer cwg.Done()
			defer func() {
				if e := recover(); e != nil {
					cmu.Lock()
					covers = append(covers, cover{fnDisplay(r.fn), false, fmt.Sprint(e)})
					cmu.Unlock()
				}
			}()
			x := newExec(P, r.fn)
			s := x.entryState()
			env := x.specEnv(s, nil)
			x.assumeGlobalInvariants(s)
			for _, l := range x.c.Lets {
				x.evalLet(env, l)
			}
			for _, rq := range x.c.Requires {
				s.assume(env.evalBool(rq.Expr))
			}
			q := buildQuery([]*Term{And(s.pc...)}, nil)
			sr := Solve(q, timeoutS, false)
			cmu.Lock()
			covers = append(covers, cover{fnDisplay(r.fn), sr.Status == "sat" && !s.dead, sr.Raw})
			cmu.Unlock()
		}(r)
	}

	var extraResults []*ObligResult
	knownNames := newKnownIndex()
	for _, k := range known {
		if k.Property == id && k.Status == "known" {
			knownNames.add(k)
		}
	}
	// discharge
	results := make([]*ObligResult, len(order))
	var dwg sync.WaitGroup
	dsem := make(chan struct{}, 16)
	for i, name := range order {
		dwg.Add(1)
		go func(i int, g *group) {
			defer dwg.Done()
			dsem <- struct{}{}
			defer func() { <-dsem }()
			t := timeoutS
			if knownNames.has(g.name) && tier != "thorough" {
				// recorded as not provable: do not spend the full budget on it
				t = 4
			}
			results[i] = discharge(g, t, all)
		}(i, groups[name])
	}
	dwg.Wait()
	cwg.Wait()
	// an obligation left undecided while the machine was saturated gets a
	// second, quieter attempt (two at a time); known findings are not retried
	{
		var rwg sync.WaitGroup
		rsem := make(chan struct{}, 2)
		for i, name := range order {
			if results[i] == nil || results[i].Result != "undecided" || knownNames.has(name) {
				continue
			}
			rwg.Add(1)
			go func(i int, g *group) {
				defer rwg.Done()
				rsem <- struct{}{}
				defer func() { <-rsem }()
				first := results[i].Ms
				r := discharge(g, 3*timeoutS, all) // the machine is quieter now; be generous
				r.Ms += first
				if r.Result != "undecided" {
					r.Note = strings.TrimSpace(r.Note + " (decided on the second attempt)")
				}
				results[i] = r
			}(i, groups[name])
		}
		rwg.Wait()
		// third attempt, one at a time, only where a solver ran out of time
		// (an answer "unknown" does not change with more time): the checks may
		// share the machine with anything
		for i, name := range order {
			if results[i] == nil || results[i].Result != "undecided" || knownNames.has(name) || !strings.Contains(results[i].Backend, "timeout") {
				continue
			}
			first := results[i].Ms
			r := discharge(groups[name], 6*timeoutS, all)
			r.Ms += first
			if r.Result != "undecided" {
				r.Note = strings.TrimSpace(r.Note + " (decided on the third attempt)")
			}
			results[i] = r
		}
	}

	// calls-only clauses: the static callees of the function
	for _, r := range runs {
		c := P.contractFor(r.fn)
		if c == nil || len(c.CallsOnly) == 0 {
			continue
		}
		var bad []string
		var scan func(fn *ssa.Function)
		scan = func(fn *ssa.Function) {
			for _, b := range fn.Blocks {
				for _, instr := range b.Instrs {
					var cc *ssa.CallCommon
					switch in := instr.(type) {
					case *ssa.Call:
						cc = in.Common()
					case *ssa.Go:
						cc = &in.Call
					case *ssa.Defer:
						cc = &in.Call
					case *ssa.MakeClosure:
						scan(in.Fn.(*ssa.Function))
					}
					if cc == nil {
						continue
					}
					name := ""
					if cc.IsInvoke() {
						name = typeName(cc.Value.Type()) + "." + cc.Method.Name()
					} else if callee := cc.StaticCallee(); callee != nil {
						if !isRepoFunc(callee) {
							continue // library calls are not restricted
						}
						name = fnDisplay(callee)
					} else if _, isBuiltin := cc.Value.(*ssa.Builtin); isBuiltin {
						continue
					} else {
						name = "dynamic call " + typeName(cc.Value.Type())
					}
					ok := false
					for _, a := range c.CallsOnly {
						if strings.Contains(name, a) {
							ok = true
						}
					}
					if !ok {
						bad = append(bad, name)
					}
				}
			}
		}
		scan(r.fn)
		sort.Strings(bad)
		res := &ObligResult{Name: fnDisplay(r.fn) + "#frame:calls-only", Kind: "frame", Paths: 1, Backend: "call-graph scan", Result: "discharged", Note: "allowed callees: " + strings.Join(c.CallsOnly, ", ")}
		if len(bad) > 0 {
			res.Result = "undecided"
			res.Note += "; also calls: " + strings.Join(bad, ", ")
		}
		extraResults = append(extraResults, res)
	}
	// never-calls clauses: a deny-list over the function, its closures and the
	// same-package functions it (transitively) calls statically
	for _, r := range runs {
		c := P.contractFor(r.fn)
		if c == nil || len(c.NeverCalls) == 0 {
			continue
		}
		var bad []string
		seen := map[*ssa.Function]bool{}
		var scan func(fn *ssa.Function, depth int)
		scan = func(fn *ssa.Function, depth int) {
			if fn == nil || seen[fn] || depth > 8 {
				return
			}
			seen[fn] = true
			for _, b := range fn.Blocks {
				for _, instr := range b.Instrs {
					var cc *ssa.CallCommon
					switch in := instr.(type) {
					case *ssa.Call:
						cc = in.Common()
					case *ssa.Go:
						cc = &in.Call
					case *ssa.Defer:
						cc = &in.Call
					case *ssa.MakeClosure:
						scan(in.Fn.(*ssa.Function), depth+1)
					}
					if cc == nil {
						continue
					}
					name := ""
					if cc.IsInvoke() {
						name = typeName(cc.Value.Type()) + "." + cc.Method.Name()
					} else if callee := cc.StaticCallee(); callee != nil {
						if isRepoFunc(callee) {
							name = fnDisplay(callee)
							if callee.Pkg == r.fn.Pkg {
								scan(callee, depth+1)
							}
						} else {
							name = callee.String()
						}
					}
					// a denied function passed as a value escapes the call scan
					for _, a := range cc.Args {
						if f, ok := a.(*ssa.Function); ok {
							for _, d := range c.NeverCalls {
								if strings.Contains(fnDisplay(f), d) || strings.Contains(f.String(), d) {
									bad = append(bad, fnDisplay(fn)+" passes "+f.String()+" as a value")
								}
							}
						}
					}
					for _, d := range c.NeverCalls {
						if name != "" && strings.Contains(name, d) {
							bad = append(bad, fmt.Sprintf("%s calls %s (%s)", fnDisplay(fn), name, P.Fset.Position(instr.Pos())))
						}
					}
				}
			}
		}
		scan(r.fn, 0)
		sort.Strings(bad)
		res := &ObligResult{Name: fnDisplay(r.fn) + "#frame:never-calls", Kind: "frame", Paths: 1, Backend: "call-graph scan", Result: "discharged",
			Note: fmt.Sprintf("denied: %s; %d functions scanned (the function, its closures, same-package static callees transitively); calls through function values and other packages' callees are not followed", strings.Join(c.NeverCalls, ", "), len(seen))}
		if len(bad) > 0 {
			res.Result = "undecided"
			res.Note += "; found: " + strings.Join(bad, "; ")
		}
		extraResults = append(extraResults, res)
	}
	// no-blocking-ops clauses: no channel send, receive or blocking select in the
	// function, its closures, or the same-package functions it calls statically
	for _, r := range runs {
		c := P.contractFor(r.fn)
		if c == nil || !c.NoBlockingOps {
			continue
		}
		var bad []string
		seen := map[*ssa.Function]bool{}
		var scan func(fn *ssa.Function, depth int)
		scan = func(fn *ssa.Function, depth int) {
			if fn == nil || seen[fn] || depth > 6 {
				return
			}
			seen[fn] = true
			for _, b := range fn.Blocks {
				for _, instr := range b.Instrs {
					what := ""
					switch in := instr.(type) {
					case *ssa.Send:
						what = "channel send"
					case *ssa.UnOp:
						if in.Op == token.ARROW {
							what = "channel receive"
						}
					case *ssa.Select:
						if in.Blocking {
							what = "blocking select"
						}
					case *ssa.MakeClosure:
						scan(in.Fn.(*ssa.Function), depth+1)
					case *ssa.Call:
						if callee := in.Common().StaticCallee(); callee != nil && isRepoFunc(callee) && callee.Pkg == r.fn.Pkg {
							scan(callee, depth+1)
						}
					case *ssa.Defer:
						if callee := in.Call.StaticCallee(); callee != nil && isRepoFunc(callee) && callee.Pkg == r.fn.Pkg {
							scan(callee, depth+1)
						}
					}
					if what != "" {
						bad = append(bad, what+" in "+fnDisplay(fn)+" ("+P.Fset.Position(instr.Pos()).String()+")")
					}
				}
			}
		}
		scan(r.fn, 0)
		sort.Strings(bad)
		res := &ObligResult{Name: fnDisplay(r.fn) + "#frame:no-blocking-ops", Kind: "frame", Paths: 1, Backend: "instruction scan", Result: "discharged", Note: fmt.Sprintf("%d functions scanned (the function, its closures, same-package static callees); goroutines it starts and other packages' functions are not followed", len(seen))}
		if len(bad) > 0 {
			res.Result = "undecided"
			res.Note += "; found: " + strings.Join(bad, "; ")
		}
		extraResults = append(extraResults, res)
	}
	// fs-writers-only clauses of the claimed packages: every call of a library
	// function that creates, replaces, renames or removes a file sits in one of
	// the functions the package's contract file names
	for _, rel := range prop.FsWriterPkgs {
		pkgPath := modPath + "/internal/" + rel
		var allowed []string
		if ps := P.Specs[pkgPath]; ps != nil {
			allowed = ps.FsWriters
		}
		var bad []string
		nScanned, nCalls := 0, 0
		var scan func(fn *ssa.Function)
		scan = func(fn *ssa.Function) {
			nScanned++
			for _, b := range fn.Blocks {
				for _, instr := range b.Instrs {
					var cc *ssa.CallCommon
					switch in := instr.(type) {
					case *ssa.Call:
						cc = in.Common()
					case *ssa.Go:
						cc = &in.Call
					case *ssa.Defer:
						cc = &in.Call
					}
					if cc == nil || cc.IsInvoke() {
						continue
					}
					callee := cc.StaticCallee()
					if callee == nil || callee.Pkg == nil {
						// a file-writing function taken as a value would escape the scan
						for _, a := range cc.Args {
							if f, ok := a.(*ssa.Function); ok && fsWriterFunc(f, nil) {
								bad = append(bad, fnDisplay(fn)+" passes "+f.String()+" as a value")
							}
						}
						continue
					}
					if !fsWriterFunc(callee, cc.Args) {
						continue
					}
					nCalls++
					ok := false
					owner := fn
					for owner.Parent() != nil {
						owner = owner.Parent()
					}
					for _, a := range allowed {
						if funcKey(owner) == a {
							ok = true
						}
					}
					if !ok {
						bad = append(bad, fmt.Sprintf("%s calls %s (%s)", fnDisplay(fn), callee.String(), P.Fset.Position(instr.Pos())))
					}
				}
			}
			for _, af := range fn.AnonFuncs {
				scan(af)
			}
		}
		var keys []string
		for k, fn := range P.Funcs {
			if fn.Pkg != nil && fn.Pkg.Pkg.Path() == pkgPath && fn.Parent() == nil && fn.Blocks != nil {
				keys = append(keys, k)
			}
		}
		sort.Strings(keys)
		for _, k := range keys {
			scan(P.Funcs[k])
		}
		sort.Strings(bad)
		res := &ObligResult{Name: rel + "#frame:fs-writers-only", Kind: "frame", Paths: 1, Backend: "instruction scan", Result: "discharged",
			Note: fmt.Sprintf("%d functions of the package scanned, %d file-modifying library calls, all inside: %s", nScanned, nCalls, strings.Join(allowed, ", "))}
		if len(allowed) == 0 {
			res.Note = fmt.Sprintf("%d functions of the package scanned, no file-modifying library call allowed", nScanned)
		}
		if nScanned == 0 {
			res.Result = "undecided"
			res.Note = "package not found: " + pkgPath
		}
		if len(bad) > 0 {
			res.Result = "undecided"
			res.Note += "; outside them: " + strings.Join(bad, "; ")
		}
		extraResults = append(extraResults, res)
	}
	// callers-only clauses of the functions under contract
	for _, r := range runs {
		c := P.contractFor(r.fn)
		if c == nil || len(c.CallersOnly) == 0 {
			continue
		}
		allowed := map[string]bool{}
		for _, a := range c.CallersOnly {
			allowed[a] = true
		}
		var bad []string
		for _, caller := range P.Funcs {
			if !isRepoFunc(caller) || caller.Blocks == nil {
				continue
			}
			for _, b := range caller.Blocks {
				for _, instr := range b.Instrs {
					var cc *ssa.CallCommon
					switch in := instr.(type) {
					case *ssa.Call:
						cc = in.Common()
					case *ssa.Go:
						cc = &in.Call
					case *ssa.Defer:
						cc = &in.Call
					}
					uses := false
					if cc != nil && cc.StaticCallee() == r.fn {
						uses = true
					}
					// the function value escaping (method value, closure binding) also counts
					if mc, ok := instr.(*ssa.MakeClosure); ok {
						if f, ok := mc.Fn.(*ssa.Function); ok && f.Synthetic != "" && strings.Contains(f.Name(), r.fn.Name()+"$bound") {
							uses = true
						}
					}
					if uses && !allowed[funcKey(caller)] {
						bad = append(bad, fnDisplay(caller))
					}
				}
			}
		}
		sort.Strings(bad)
		res := &ObligResult{Name: fnDisplay(r.fn) + "#frame:callers-only", Kind: "frame", Paths: 1, Backend: "call-graph scan", Result: "discharged", Note: "allowed callers: " + strings.Join(c.CallersOnly, ", ")}
		if len(bad) > 0 {
			res.Result = "undecided"
			res.Note += "; also called from: " + strings.Join(bad, ", ")
		}
		extraResults = append(extraResults, res)
	}

	// lemmas
	// vacuity: a discharged clause obligation that no feasible path reaches
	{
		var cwg sync.WaitGroup
		csem := make(chan struct{}, 10)
		var cmu sync.Mutex
		for i, name := range order {
			r := results[i]
			if r == nil || r.Result != "discharged" || os.Getenv("GOVC_NO_COVER") != "" {
				continue
			}
			if !coverKinds[r.Kind] && !(os.Getenv("GOVC_COVER_ALL") != "" && (r.Kind == "pre" || r.Kind == "chaninv" || r.Kind == "type-invariant" || r.Kind == "typestate")) {
				continue
			}
			cwg.Add(1)
			go func(i int, g *group) {
				defer cwg.Done()
				csem <- struct{}{}
				defer func() { <-csem }()
				if groupReachable(g, 3) == "unsat" {
					cmu.Lock()
					results[i].Result = "undecided"
					results[i].Backend = "reachability"
					results[i].Note = strings.TrimSpace(results[i].Note + " VACUOUS: no feasible path reaches this obligation (contradictory assumptions, or a clause attached to dead code): it is proved by nothing")
					cmu.Unlock()
				}
			}(i, groups[name])
		}
		cwg.Wait()
	}
	lemmaResults := runLemmas(P, prop, timeoutS, all)
	results = append(results, extraResults...)
	results = append(results, lemmaResults...)

	// classify
	knownByName := newKnownIndex()
	for _, k := range known {
		if k.Property == id && k.Status == "known" {
			knownByName.add(k)
		}
	}
	discharged, failed := 0, 0
	var violations []*ObligResult
	var knownHit []string
	solverMs := int64(0)
	backends := map[string]int{}
	for _, r := range results {
		solverMs += r.Ms
		switch r.Result {
		case "discharged":
			discharged++
			backends[r.Backend]++
		default:
			if k, ok := knownByName.get(r.Name); ok {
				r.Result = "known-finding"
				knownHit = append(knownHit, r.Name)
				fmt.Printf("KNOWN-FINDING: property=%s %s %s\n", id, r.Name, k.What)
				continue
			}
			failed++
			violations = append(violations, r)
		}
	}
	// a known finding whose obligation now verifies is simply no longer printed
	exit := 0
	for _, c := range covers {
		if !c.ok {
			engineErrs = append(engineErrs, "vacuous contract: preconditions of "+c.name+" are unsatisfiable or undecided")
		}
	}
	if len(results) == 0 {
		engineErrs = append(engineErrs, "no obligations generated")
	}
	for _, v := range violations {
		rp := replayViolation(P, id, v)
		suffix := ""
		if !rp.reproduced {
			suffix = " no-failing-input-found"
		}
		fmt.Printf("VIOLATION property=%s replay=%s obligation=%s%s\n", id, rp.path, v.Name, suffix)
		exit = 1
	}
	for _, d := range P.Dangling {
		fmt.Fprintln(os.Stderr, "note:", d)
	}
	for i, e := range engineErrs {
		if i < 25 {
			fmt.Fprintln(os.Stderr, "engine:", e)
		}
	}
	if len(engineErrs) > 0 {
		p := writeReplay(id, "engine-errors", map[string]interface{}{"errors": engineErrs, "note": "the verifier could not generate or check every obligation for this tree; the property is undecided, which is reported as a violation without a failing input"})
		fmt.Printf("VIOLATION property=%s replay=%s obligation=engine no-failing-input-found\n", id, p)
		exit = 1
	}

	// bounded stand-ins
	var boundedOut []map[string]interface{}
	for _, bc := range prop.BoundedChecks {
		out, failedB, err := runBoundedCheck(bc, tier)
		st := "held on every input within the bound"
		if err != nil {
			st = "could not run: " + err.Error()
			engineErrs = append(engineErrs, "bounded check "+bc.Name+": "+err.Error())
			p := writeReplay(id, "bounded-"+bc.Name, map[string]interface{}{"bounded_check": bc, "error": err.Error(), "output": out})
			fmt.Printf("VIOLATION property=%s replay=%s obligation=%s no-failing-input-found\n", id, p, bc.Name)
			exit = 1
		} else if failedB {
			st = "FAILED"
			if kf, ok := knownByName.get(bc.Name); ok {
				fmt.Printf("KNOWN-FINDING: property=%s %s %s\n", id, bc.Name, kf.What)
				st = "known finding"
			} else {
				p := writeReplay(id, "bounded-"+bc.Name, map[string]interface{}{"bounded_check": bc, "reproduced_on_real_code": true, "output": out,
					"how_to_rerun": "go test -overlay with /verif/bounded/" + bc.File + " placed in internal/" + bc.Pkg + " (-run TestGovcBounded)"})
				fmt.Printf("VIOLATION property=%s replay=%s obligation=%s\n", id, p, bc.Name)
				exit = 1
				failed++
			}
		}
		boundedOut = append(boundedOut, map[string]interface{}{"name": bc.Name, "bound": bc.Bound, "stands_for": bc.StandsFor, "status": st, "counted_as_proved": false})
	}

	// evidence
	var samples []interface{}
	for _, r := range results {
		if len(samples) >= 4 {
			break
		}
		if r.query != "" && r.Result == "discharged" && len(r.query) < 6000 {
			samples = append(samples, map[string]interface{}{"obligation": r.Name, "backend": r.Backend, "ms": r.Ms, "smtlib": r.query})
		}
	}
	if len(samples) == 0 {
		for _, r := range results {
			if len(samples) >= 3 {
				break
			}
			samples = append(samples, map[string]interface{}{"obligation": r.Name, "backend": r.Backend, "result": r.Result, "note": r.Note})
		}
	}
	var asm []string
	for a := range assumptions {
		asm = append(asm, a)
	}
	for t := range trusted {
		asm = append(asm, "trusted contract (body not verified here): "+t)
	}
	for u, n := range unmodelled {
		asm = append(asm, fmt.Sprintf("unmodelled/havoc'd (%dx): %s", n, u))
	}
	asm = append(asm, prop.Trusted...)
	sort.Strings(asm)
	total := len(results)
	cov := map[string]interface{}{
		"obligations":              total - len(knownHit),
		"discharged":               discharged,
		"obligations_generated":    total,
		"known_findings":           knownHit,
		"failed":                   failed,
		"checker_cmd":              fmt.Sprintf("/verif/bin/govc check --property %s --tier %s", id, tier),
		"trusted_base":             prop.Trusted,
		"functions_under_contract": fnNames,
		"paths_explored":           totalPaths,
		"per_obligation":           results,
		"backends":                 backends,
		"solver_ms_total":          solverMs,
		"load_ms":                  loadMs,
		"samples":                  samples,
		"uncovered":                prop.Uncovered,
		"bounded":                  prop.Bounded,
		"bounded_checks":           boundedOut,
		"engine_errors":            engineErrs,
		"dangling_contracts":       P.Dangling,
		"verified_inside_callers":  viaCallers,
		"vacuity_covers":           len(covers),
		"explanation":              levelText(prop, total, discharged, knownHit),
	}
	ev := Evidence{PropertyID: id, Tier: tier, Seed: seedFromEnv(), Level: "proof", Coverage: cov, Assumptions: asm, WallS: time.Since(start).Seconds(), Violations: len(violations)}
	if prop.Level != "" {
		ev.Level = prop.Level
	}
	os.MkdirAll(filepath.Join(outDir(), "evidence"), 0o755)
	b, _ := json.MarshalIndent(ev, "", " ")
	if err := os.WriteFile(filepath.Join(outDir(), "evidence", id+".json"), b, 0o644); err != nil {
		fmt.Fprintln(os.Stderr, "cannot write evidence:", err)
		return 2
	}
	fmt.Printf("property=%s tier=%s functions=%d obligations=%d discharged=%d known-findings=%d failed=%d wall=%.1fs\n", id, tier, len(fns), total, discharged, len(knownHit), failed, time.Since(start).Seconds())
	return exit
}

func levelText(p *PropSpec, total, discharged int, known []string) string {
	s := fmt.Sprintf("%d obligations were generated from /repo's current source; %d were discharged by an SMT solver", total, discharged)
	if len(known) > 0 {
		s += fmt.Sprintf("; %d failed and are recorded known findings (printed as KNOWN-FINDING, listed under known_findings, NOT proved and therefore not counted in `obligations`/`discharged`): the proof claim covers the remaining %d", len(known), total-len(known))
	}
	return s
}

func seedFromEnv() int64 {
	var n int64
	fmt.Sscanf(os.Getenv("VERIF_SEED"), "%d", &n)
	return n
}

func writeReplay(id, name string, payload map[string]interface{}) string {
	dir := filepath.Join(outDir(), "replays", id)
	os.MkdirAll(dir, 0o755)
	safe := strings.NewReplacer("/", "_", " ", "_", "#", "_", ":", "_", "*", "", "(", "", ")", "", "[", "_", "]", "_", "$", "_", "~", "_", "\"", "", "'", "", "<", "", ">", "", "&", "", "|", "", ";", "", "`", "", "\\", "").Replace(name)
	if len(safe) > 120 {
		safe = safe[:120]
	}
	p := filepath.Join(dir, safe+".json")
	b, _ := json.MarshalIndent(payload, "", " ")
	os.WriteFile(p, b, 0o644)
	return p
}

func runBoundedCheck(bc BoundedCheck, tier string) (string, bool, error) {
	src := filepath.Join(verifDir(), "bounded", bc.File)
	if _, err := os.Stat(src); err != nil {
		return "", false, err
	}
	dir := filepath.Join(repoDir(), "internal", bc.Pkg)
	tmp, err := os.MkdirTemp("", "govc-bounded-")
	if err != nil {
		return "", false, err
	}
	defer os.RemoveAll(tmp)
	ov := map[string]map[string]string{"Replace": {filepath.Join(dir, "zz_govc_bounded_test.go"): src}}
	ob, _ := json.Marshal(ov)
	of := filepath.Join(tmp, "overlay.json")
	os.WriteFile(of, ob, 0o644)
	ctx, cancel := context.WithTimeout(context.Background(), 300*time.Second)
	defer cancel()
	cmd := exec.CommandContext(ctx, "go", "test", "-overlay", of, "-vet=off", "-count=1", "-timeout", "240s", "-run", "^TestGovcBounded", ".")
	cmd.Dir = dir
	cmd.Env = append(os.Environ(), "GOFLAGS=-mod=mod", "GOPROXY=off", "GOSUMDB=off", "GOTOOLCHAIN=local", "DTAIL_HOSTNAME_OVERRIDE=replayhost", "GOVC_TIER="+tier)
	var out bytes.Buffer
	cmd.Stdout = &out
	cmd.Stderr = &out
	runErr := cmd.Run()
	o := out.String()
	if len(o) > 6000 {
		o = o[:6000] + "..."
	}
	if runErr == nil {
		if !strings.Contains(o, "ok") {
			return o, false, fmt.Errorf("bounded test did not run")
		}
		return o, false, nil
	}
	if strings.Contains(o, "GOVC-BOUNDED-FAIL") {
		return o, true, nil
	}
	return o, false, fmt.Errorf("bounded test did not complete: %v", runErr)
}

// fsWriterFunc: library functions that create, replace, rename or remove a file.
// os.OpenFile with the constant flag O_RDONLY (0) only reads.
func fsWriterFunc(callee *ssa.Function, args []ssa.Value) bool {
	if callee.Pkg == nil {
		return false
	}
	switch callee.Pkg.Pkg.Path() + "." + callee.Name() {
	case "os.Create", "os.Rename", "os.Remove", "os.RemoveAll", "os.WriteFile", "os.Mkdir", "os.MkdirAll",
		"os.Truncate", "os.Chmod", "os.Chown", "os.Symlink", "os.Link", "os.CreateTemp", "os.MkdirTemp",
		"io/ioutil.WriteFile", "io/ioutil.TempFile", "io/ioutil.TempDir":
		return true
	case "os.OpenFile":
		if len(args) >= 2 {
			if c, ok := args[1].(*ssa.Const); ok && c.Value != nil && c.Int64() == 0 {
				return false
			}
		}
		return true
	}
	return false
}

// stripSite removes the "@<source text of the call>" part of an obligation name.
func stripSite(name string) string {
	if i := strings.Index(name, "@"); i >= 0 {
		return name[:i]
	}
	return name
}

// knownIndex looks findings up by obligation name (exactly, or by clause for
// entries that say so).
type knownIndex struct {
	exact  map[string]KnownFinding
	clause map[string]KnownFinding
}

func newKnownIndex() *knownIndex {
	return &knownIndex{exact: map[string]KnownFinding{}, clause: map[string]KnownFinding{}}
}

func (ki *knownIndex) add(k KnownFinding) {
	ki.exact[k.Obligation] = k
	if k.Match == "clause" {
		ki.clause[stripSite(k.Obligation)] = k
	}
}

func (ki *knownIndex) remove(k KnownFinding) {
	delete(ki.exact, k.Obligation)
	delete(ki.clause, stripSite(k.Obligation))
}

func (ki *knownIndex) get(name string) (KnownFinding, bool) {
	if k, ok := ki.exact[name]; ok {
		return k, true
	}
	if strings.Contains(name, "@") {
		if k, ok := ki.clause[stripSite(name)]; ok {
			return k, true
		}
	}
	return KnownFinding{}, false
}

func (ki *knownIndex) has(name string) bool { _, ok := ki.get(name); return ok }
