#!/usr/bin/env python3
"""Must-fail / must-pass corpus for govc.

Each mutant is a patch against /repo's HEAD. It is applied to a scratch git
worktree OUTSIDE /repo and /verif (removed right afterwards), govc is run on
that tree, and the listed obligation(s) must fail (must-fail) or nothing may
fail (must-pass).  Usage: run.py [--property Cxx] [--only name] [--jobs N] [--harmless]
(--harmless: the edits under selftest/harmless/, each run against every claimed property)
"""
import json, os, subprocess, sys, tempfile, glob, shutil, concurrent.futures, argparse

VERIF = os.environ.get("VERIF_DIR", "/verif")
REPO = "/repo"

def run_one(meta_path):
    meta = json.load(open(meta_path))
    name = os.path.basename(meta_path)[:-5]
    patch = os.path.join(os.path.dirname(meta_path), meta["patch"])
    wt = tempfile.mkdtemp(prefix="govc-st-")
    out = tempfile.mkdtemp(prefix="govc-st-out-")
    os.rmdir(wt)
    try:
        subprocess.check_call(["git", "-C", REPO, "worktree", "add", "-q", "--detach", wt, "HEAD"], stdout=subprocess.DEVNULL, stderr=subprocess.DEVNULL)
        r = subprocess.run(["git", "-C", wt, "apply", patch], capture_output=True, text=True)
        if r.returncode != 0:
            return name, False, "patch does not apply: " + r.stderr.strip()
        b = subprocess.run(["go", "build", "./..."], cwd=wt, capture_output=True, text=True,
                           env=dict(os.environ, GOFLAGS="-mod=mod", GOPROXY="off", GOSUMDB="off", GOTOOLCHAIN="local"))
        if b.returncode != 0:
            return name, False, "mutant does not compile: " + b.stderr[:300]
        env = dict(os.environ, VERIF_REPO=wt, VERIF_OUT=out, GOVC_NO_REPLAY="" if meta.get("replay") else "1")
        if meta["property"] == "ALL":
            # behaviour-preserving edit: every claimed property must stay quiet
            claimed = [c["property_id"] for c in json.load(open(os.path.join(VERIF, "MANIFEST.json")))["checks"]]
            viol, rc = [], 0
            for pid in claimed:
                r = subprocess.run([os.path.join(VERIF, "bin", "govc"), "check", "--property", pid, "--tier", "quick"],
                                   capture_output=True, text=True, env=env)
                viol += [l for l in r.stdout.splitlines() if l.startswith("VIOLATION")]
                rc = rc or r.returncode
            r = subprocess.CompletedProcess([], rc)
        else:
            r = subprocess.run([os.path.join(VERIF, "bin", "govc"), "check", "--property", meta["property"], "--tier", "quick"],
                               capture_output=True, text=True, env=env)
            viol = [l for l in r.stdout.splitlines() if l.startswith("VIOLATION")]
        # keep what an engine error said (the scratch output directory is removed afterwards)
        extra = ""
        for l in viol:
            if "obligation=engine" in l or "undecided" in l:
                try:
                    rp = l.split("replay=")[1].split()[0]
                    extra += " [" + "; ".join(json.load(open(rp)).get("errors", [])[:2])[:300] + "]"
                except Exception:
                    pass
        if extra:
            viol = [v + extra if "obligation=engine" in v else v for v in viol]
        if meta.get("kind") == "known-brittle":
            # a behaviour-preserving edit that is known to alarm (DESIGN.md §10.7): it must
            # alarm only in the documented way, so that the limitation does not grow silently
            stray = [v for v in viol if not any(e in v for e in meta["expect"])]
            ok = not stray
            return name, ok, ("alarms as documented (%d lines): %s" % (len(viol), meta.get("why", ""))) if ok else "undocumented alarm: " + "; ".join(stray)[:400]
        if meta.get("kind", "must-fail") == "must-pass":
            ok = r.returncode == 0 and not viol
            return name, ok, "clean" if ok else "unexpected: " + "; ".join(viol)[:400]
        missing = [e for e in meta["expect"] if not any(e in v for v in viol)]
        ok = r.returncode == 1 and not missing
        detail = "caught by " + ", ".join(meta["expect"]) if ok else ("expected obligation(s) not reported: %s; got: %s" % (missing, "; ".join(v.split("obligation=")[-1] for v in viol)[:400]))
        return name, ok, detail
    finally:
        subprocess.run(["git", "-C", REPO, "worktree", "remove", "--force", wt], stdout=subprocess.DEVNULL, stderr=subprocess.DEVNULL)
        shutil.rmtree(wt, ignore_errors=True)
        shutil.rmtree(out, ignore_errors=True)

def main():
    ap = argparse.ArgumentParser()
    ap.add_argument("--property")
    ap.add_argument("--only")
    ap.add_argument("--jobs", type=int, default=4)
    ap.add_argument("--harmless", action="store_true", help="run the behaviour-preserving edits of selftest/harmless/ against every claimed property")
    a = ap.parse_args()
    metas = sorted(glob.glob(os.path.join(VERIF, "selftest", "harmless" if a.harmless else "mutants", "*.json")))
    sel = []
    for m in metas:
        meta = json.load(open(m))
        if a.property and meta["property"] != a.property:
            continue
        if a.only and a.only not in m:
            continue
        sel.append(m)
    bad = 0
    with concurrent.futures.ThreadPoolExecutor(max_workers=a.jobs) as ex:
        for name, ok, detail in ex.map(run_one, sel):
            print("%-6s %-40s %s" % ("ok" if ok else "FAIL", name, detail))
            if not ok:
                bad += 1
    print("selftest: %d mutants, %d wrong" % (len(sel), bad))
    subprocess.run(["git", "-C", REPO, "worktree", "prune"])
    sys.exit(1 if bad else 0)

if __name__ == "__main__":
    main()
