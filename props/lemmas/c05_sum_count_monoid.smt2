; The combination Merge's contract prescribes for count / sum / avg columns
; (mergedSum): the value of an absent side counts as 0 and the result is present:
;   comb(a, b) = (a present ? a.v : 0) + (b present ? b.v : 0)
; Over the reals this is associative and commutative and an absent side adds
; nothing; sample counts add up the same way, so avg = sum / samples of the
; merged parts is the sum over all lines divided by the number of all samples.
; (Machine floats are treated as reals: rounding of sums may differ, which the
; property allows.) Negated goal: expected unsat.
(set-logic ALL)
(declare-datatypes ((Opt 0)) (((mk (has Bool) (v Real)))))
(define-fun val ((a Opt)) Real (ite (has a) (v a) 0.0))
(define-fun comb ((a Opt) (b Opt)) Opt (mk true (+ (val a) (val b))))
(declare-const a Opt)
(declare-const b Opt)
(declare-const c Opt)
(declare-const none Opt)
(assert (not (has none)))
(assert (not (and
  (= (val (comb (comb a b) c)) (val (comb a (comb b c))))
  (= (val (comb a b)) (val (comb b a)))
  (= (val (comb a none)) (val a))
  (= (val (comb none a)) (val a)))))
(check-sat)
