; The combination Merge's contract prescribes for a min column (mergedMin) and
; Aggregate's for one more value ([min]): optional values (present?, value) with
;   comb(a, b) = b absent ? a : (a present and a.v <= b.v ? a : b)
; is associative, commutative in its value, and absent is neutral on both sides.
; Hence merging partial minima in any grouping and order equals the minimum
; over all values (same for max with >=). Negated goal: expected unsat.
(set-logic ALL)
(declare-datatypes ((Opt 0)) (((mk (has Bool) (v Real)))))
(define-fun combMin ((a Opt) (b Opt)) Opt
  (ite (has b) (ite (and (has a) (<= (v a) (v b))) a b) a))
(define-fun combMax ((a Opt) (b Opt)) Opt
  (ite (has b) (ite (and (has a) (>= (v a) (v b))) a b) a))
(define-fun same ((a Opt) (b Opt)) Bool
  (and (= (has a) (has b)) (=> (has a) (= (v a) (v b)))))
(declare-const a Opt)
(declare-const b Opt)
(declare-const c Opt)
(declare-const none Opt)
(assert (not (has none)))
(assert (not (and
  (same (combMin (combMin a b) c) (combMin a (combMin b c)))
  (same (combMin a b) (combMin b a))
  (same (combMin a none) a)
  (same (combMin none a) a)
  (same (combMax (combMax a b) c) (combMax a (combMax b c)))
  (same (combMax a b) (combMax b a))
  (same (combMax a none) a)
  (same (combMax none a) a))))
(check-sat)
